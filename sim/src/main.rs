//! Deterministic simulator for minimal-lexical (see /verif/DESIGN.md).
//!
//!   sim run --prop C13 --engine native --profile release --seed 1 --from 0 --to 1000
//!           [--offset p --stride P] [--tier quick] --out stats.json [--progress FILE] [--replay-dir DIR]
//!   sim replay FILE            exit 1 + VIOLATION line iff the recorded violation class reproduces
//!   sim exec-case FILE         run the case of a replay file, print `CLASS <class>` / `OK`
//!   sim mkreplay ...           write the (unminimised) replay file of one run index without executing it
//!   sim selftest               harness self-checks (reference arithmetic, shapes deliver the bytes)

#![allow(dead_code)]

mod alloc;
mod common;
mod gen;
mod hist_big;
mod hist_vec;
mod lemire_rare;
mod nat;
mod par;
mod rng;
mod sched;
mod shape;
mod worlds;

use common::{Case, ReplayFile, Shrink, Stats, Violation};
use std::collections::BTreeMap;
use std::io::Write;

#[global_allocator]
static GLOBAL: alloc::SimAlloc = alloc::SimAlloc;

/// Per-worker cap of the exact distinct-case sets (memory bound for 10^8-run batches).
const SET_CAP: usize = 250_000;

struct Args {
    pos: Vec<String>,
    kv: BTreeMap<String, String>,
}

fn parse_args() -> Args {
    let mut pos = Vec::new();
    let mut kv = BTreeMap::new();
    let mut it = std::env::args().skip(1);
    while let Some(a) = it.next() {
        if let Some(k) = a.strip_prefix("--") {
            let v = it.next().unwrap_or_default();
            kv.insert(k.to_string(), v);
        } else {
            pos.push(a);
        }
    }
    Args { pos, kv }
}

impl Args {
    fn get(&self, k: &str, d: &str) -> String {
        self.kv.get(k).cloned().unwrap_or_else(|| d.to_string())
    }
    fn u64(&self, k: &str, d: u64) -> u64 {
        self.kv.get(k).map(|v| v.parse().expect("numeric argument")).unwrap_or(d)
    }
}

struct Ctx {
    prop: String,
    engine: String,
    profile: String,
    thorough: bool,
}

impl Ctx {
    fn miri(&self) -> bool {
        self.engine == "miri"
    }
}

/// Generate the case of run `seed` for the property.
fn gen_case(ctx: &Ctx, seed: u64) -> Case {
    let mut r = rng::Rng::new(seed ^ 0xC0FFEE);
    let native = !ctx.miri();
    match ctx.prop.as_str() {
        "C13" => {
            let world = *r.pick(&[0usize, 0, 1, 2, 2, 3, 4]);
            let alloc = world == 2 || world == 3;
            Case::Vec(hist_vec::gen_case(seed, world, alloc, native, if ctx.miri() { 30 } else { 60 }))
        },
        "C12" => {
            let world = *r.pick(&[0usize, 0, 1, 1, 2, 3, 4]);
            let steered = r.chance(1, 2);
            Case::Big(hist_big::gen_case(seed, world, native, steered, if ctx.miri() { 12 } else { 40 }))
        },
        "C08" => Case::Par(par::gen_case_c08(
            seed,
            &par::GenCfg { property: "C08", miri: ctx.miri(), thorough: ctx.thorough },
        )),
        "C15" => Case::Par(par::gen_case(seed, &par::GenCfg { property: "C15", miri: ctx.miri(), thorough: ctx.thorough })),
        "C16" => Case::Par(par::gen_case(seed, &par::GenCfg { property: "C16", miri: ctx.miri(), thorough: ctx.thorough })),
        p => panic!("unknown property {}", p),
    }
}

struct RunOut {
    fp: u64,
    digest: u64,
    nontrivial: bool,
}

/// Execute a case; Ok(run info) or the violation.
fn run_case(case: &Case, stats: &mut Stats, miri: bool) -> Result<RunOut, Violation> {
    match case {
        Case::Vec(c) => {
            alloc::open_window(c.poison.map(|p| p ^ 0xF111));
            let r = with_world!(c.world, W, hist_vec::run_case::<W>(c, stats));
            alloc::close_window();
            with_world!(c.world, W, <W as worlds::World>::set_poison(None));
            let i = r?;
            stats.add("faults.capacity", i.faults);
            stats.add("resyncs_after_failed_arith_or_panic", i.resyncs);
            Ok(RunOut { fp: i.fp, digest: i.fp ^ i.faults, nontrivial: i.faults > 0 || i.refill_after_shrink })
        },
        Case::Big(c) => {
            alloc::open_window(c.poison.map(|p| p ^ 0xF111));
            let r = with_world!(c.world, W, hist_big::run_case::<W>(c, stats));
            alloc::close_window();
            with_world!(c.world, W, <W as worlds::World>::set_poison(None));
            let i = r?;
            stats.add("faults.capacity", i.faults);
            Ok(RunOut { fp: i.fp, digest: i.fp ^ i.faults, nontrivial: i.faults > 0 || i.at_capacity > 0 })
        },
        Case::Par(c) => {
            let i = par::run_case(c, stats, miri)?;
            Ok(RunOut { fp: i.trace_fp, digest: i.digest, nontrivial: i.switches > 0 })
        },
    }
}

fn describe(case: &Case) -> serde_json::Value {
    match case {
        Case::Vec(c) => hist_vec::describe(c),
        Case::Big(c) => hist_big::describe(c),
        Case::Par(c) => par::describe(c, None),
    }
}

fn case_size(case: &Case) -> usize {
    match case {
        Case::Vec(c) => c.size(),
        Case::Big(c) => c.size(),
        Case::Par(c) => c.size(),
    }
}

fn minimise_case(case: &Case, class: &str, miri: bool, budget: usize) -> Case {
    let mut scratch = Stats::default();
    match case {
        Case::Vec(c) => Case::Vec(common::minimise(
            c.clone(),
            class,
            &mut |x| run_case(&Case::Vec(x.clone()), &mut scratch, miri).err().map(|v| v.class),
            budget,
        )),
        Case::Big(c) => Case::Big(common::minimise(
            c.clone(),
            class,
            &mut |x| run_case(&Case::Big(x.clone()), &mut scratch, miri).err().map(|v| v.class),
            budget,
        )),
        Case::Par(c) => {
            // pin the schedule first: replace the seeded scheduler by its recorded decision list
            let mut c = c.clone();
            if c.tasks.len() > 1 {
                let run = par::execute(&c, &c.sched, c.yield_mode);
                let mut pinned = c.clone();
                pinned.sched.kind = sched::SchedKind::Replay { decisions: run.trace.decisions.clone() };
                if run_case(&Case::Par(pinned.clone()), &mut scratch, miri).err().map(|v| v.class).as_deref() == Some(class) {
                    c = pinned;
                }
            }
            Case::Par(common::minimise(
                c,
                class,
                &mut |x| run_case(&Case::Par(x.clone()), &mut scratch, miri).err().map(|v| v.class),
                budget,
            ))
        },
    }
}

fn write_replay(dir: &str, rf: &ReplayFile) -> String {
    std::fs::create_dir_all(dir).ok();
    let path = format!("{}/{}-{}-seed{}-run{}.json", dir, rf.property, rf.engine, rf.verif_seed, rf.run_index);
    let mut f = std::fs::File::create(&path).expect("create replay file");
    f.write_all(serde_json::to_string_pretty(rf).unwrap().as_bytes()).unwrap();
    path
}

fn init() {
    sched::warm_up();
    common::install_panic_hook();
    worlds::set_sched_hook_all(Some(sched::lib_hook));
}

struct RunCfg<'a> {
    ctx: &'a Ctx,
    a: &'a Args,
    seed: u64,
    replay_dir: String,
    progress: Option<std::fs::File>,
    trace_cases: bool,
    want_digests: bool,
    stride: u64,
    /// (class, substring of detail) of recorded known findings
    known: Vec<(String, String)>,
}

/// Execute the given run indices in this process. Returns 1 at the first violation.
fn run_indices(rc_cfg: &RunCfg, indices: &[u64], stats: &mut Stats, deadline: Option<std::time::Instant>) -> i32 {
    let ctx = rc_cfg.ctx;
    let a = rc_cfg.a;
    let seed = rc_cfg.seed;
    for &i in indices {
        if let Some(d) = deadline {
            if std::time::Instant::now() >= d {
                stats.notes.insert(format!("stopped at run index {} by --max-secs", i));
                break;
            }
        }
        let rs = rng::run_seed(seed, &ctx.prop, i);
        if let Some(p) = &rc_cfg.progress {
            use std::os::unix::fs::FileExt;
            let _ = p.write_at(format!("{:>20}\n", i).as_bytes(), 0);
        }
        if rc_cfg.trace_cases {
            println!("CASE {}", i);
        }
        // engine B: cases are generated natively beforehand (generation under Miri costs more than
        // the run itself) and read back here; same seed, same case
        let case = match a.kv.get("batch-dir") {
            Some(dir) => load_replay(&format!("{}/{}.json", dir, i)).case,
            None => gen_case(ctx, rs),
        };
        stats.inc("runs");
        let sample_this = stats.samples.len() < 3 && (i / rc_cfg.stride) % 7 == 0;
        match run_case(&case, stats, ctx.miri()) {
            Ok(o) => {
                if sample_this {
                    // written-out sample; for task-engine cases with the scheduler's decision trace
                    // (taken from one more execution of the same case, after the judged one)
                    let mut d = match &case {
                        Case::Par(c) if !ctx.miri() => {
                            let again = par::execute(c, &c.sched, c.yield_mode);
                            par::describe(c, Some(&again.trace))
                        },
                        _ => describe(&case),
                    };
                    d["run_index"] = serde_json::json!(i);
                    d["run_seed"] = serde_json::json!(rs);
                    stats.samples.push(d);
                }
                // exact sets up to a cap per worker; beyond it the count is a lower bound (and says so)
                if stats.fingerprints.len() < SET_CAP {
                    stats.fingerprints.insert(o.fp);
                } else {
                    stats.inc("capped.fingerprints_not_recorded");
                }
                if o.nontrivial {
                    stats.inc("runs.nontrivial");
                    if !matches!(case, Case::Par(_)) {
                        if stats.distinct.len() < SET_CAP {
                            stats.distinct.insert(o.fp);
                        } else {
                            stats.inc("capped.distinct_not_recorded");
                        }
                    }
                }
                if rc_cfg.want_digests {
                    stats.digests.push((i, o.digest));
                }
            },
            Err(v) if rc_cfg.known.iter().any(|(c, m)| c == &v.class && v.detail.contains(m.as_str())) => {
                // a recorded known finding (KNOWN_FINDINGS.txt): count it and go on exploring, so that
                // a different violation of the same property is still found and reported
                stats.inc("known_finding_hits");
                if stats.notes.len() < 64 {
                    stats.notes.insert(format!("KNOWN-FINDING-HIT class={} {}", v.class, v.detail));
                }
            },
            Err(v) => {
                // minimise, confirm, persist
                let orig = case_size(&case);
                let min = if ctx.miri() { case.clone() } else { minimise_case(&case, &v.class, false, 4000) };
                let mut scratch = Stats::default();
                let (fin, minimised, v2) = match run_case(&min, &mut scratch, ctx.miri()) {
                    Err(v2) if v2.class == v.class => (min, true, v2),
                    _ => (case.clone(), false, v.clone()),
                };
                let rf = ReplayFile {
                    property: ctx.prop.clone(),
                    engine: ctx.engine.clone(),
                    profile: ctx.profile.clone(),
                    verif_seed: seed,
                    run_index: i,
                    run_seed: rs,
                    class: v2.class.clone(),
                    detail: v2.detail.clone(),
                    minimised,
                    original_ops: orig,
                    minimised_ops: case_size(&fin),
                    engine_flags: a.get("engine-flags", ""),
                    case: fin,
                };
                let path = if ctx.miri() {
                    // no file system under Miri's isolation: hand the replay file to the orchestrator
                    println!("VIOLATION-CASE {}", serde_json::to_string(&rf).unwrap());
                    format!("{}/{}-{}-seed{}-run{}.json", rc_cfg.replay_dir, rf.property, rf.engine, rf.verif_seed, rf.run_index)
                } else {
                    write_replay(&rc_cfg.replay_dir, &rf)
                };
                println!("VIOLATION property={} replay={}", ctx.prop, path);
                println!("  class={} detail={}", v2.class, v2.detail);
                stats.violations.push(format!("{} {} {}", path, v2.class, v2.detail));
                return 1;
            },
        }
    }
    0
}

/// "Process restart" as a simulated fault: execute the indices in forked children of
/// `chunk` runs each. The parent never enters the library, so every child starts with
/// pristine process-global state (lazily built tables, caches, flags a change may add):
/// first-use behaviour is exercised once per child instead of once per worker.
#[cfg(not(miri))]
fn run_forked(rc_cfg: &RunCfg, indices: &[u64], chunk: usize, stats: &mut Stats, deadline: Option<std::time::Instant>) -> i32 {
    use std::io::Read;
    use std::os::unix::io::FromRawFd;
    for part in indices.chunks(chunk.max(1)) {
        if let Some(d) = deadline {
            if std::time::Instant::now() >= d {
                stats.notes.insert(format!("stopped at run index {} by --max-secs", part[0]));
                break;
            }
        }
        let mut fds = [0i32; 2];
        if unsafe { libc::pipe(fds.as_mut_ptr()) } != 0 {
            eprintln!("pipe failed");
            return 2;
        }
        let pid = unsafe { libc::fork() };
        if pid < 0 {
            eprintln!("fork failed");
            return 2;
        }
        if pid == 0 {
            // child: a fresh process as far as the library is concerned
            unsafe { libc::close(fds[0]) };
            let mut st = Stats::default();
            let rc = run_indices(rc_cfg, part, &mut st, deadline);
            let bytes = serde_json::to_vec(&st).unwrap();
            let mut f = unsafe { std::fs::File::from_raw_fd(fds[1]) };
            let _ = f.write_all(&bytes);
            drop(f);
            std::process::exit(rc);
        }
        unsafe { libc::close(fds[1]) };
        let mut f = unsafe { std::fs::File::from_raw_fd(fds[0]) };
        let mut buf = Vec::new();
        let _ = f.read_to_end(&mut buf);
        drop(f);
        let mut status = 0i32;
        unsafe { libc::waitpid(pid, &mut status, 0) };
        if let Ok(st) = serde_json::from_slice::<Stats>(&buf) {
            stats.merge(st);
        }
        stats.inc("fault.process_restart_fresh_child");
        let exited = libc::WIFEXITED(status);
        let code = if exited { libc::WEXITSTATUS(status) } else { -1 };
        if exited && code == 0 {
            continue;
        }
        if exited && code == 1 {
            return 1;
        }
        // the child died (signal, abort, sanitizer): die the same way so that the
        // orchestrator classifies it; the progress file names the run index
        if libc::WIFSIGNALED(status) {
            let sig = libc::WTERMSIG(status);
            eprintln!("[sim] forked child killed by signal {}", sig);
            unsafe {
                libc::signal(sig, libc::SIG_DFL);
                libc::raise(sig);
            }
        }
        eprintln!("[sim] forked child exited with code {}", code);
        std::process::exit(if code > 1 { code } else { 134 });
    }
    0
}

/// `known: property=<id> class=<class> match=<substring> :: <what fails>` lines of KNOWN_FINDINGS.txt
fn load_known(path: Option<&String>) -> Vec<(String, String)> {
    let mut out = Vec::new();
    if let Some(p) = path {
        if let Ok(text) = std::fs::read_to_string(p) {
            for line in text.lines() {
                let line = line.trim();
                if let Some(body) = line.strip_prefix("known:") {
                    let body = body.split("::").next().unwrap_or("");
                    let mut class = String::new();
                    let mut mat = String::new();
                    for tok in body.split_whitespace() {
                        if let Some(c) = tok.strip_prefix("class=") {
                            class = c.to_string();
                        }
                        if let Some(m) = tok.strip_prefix("match=") {
                            mat = m.to_string();
                        }
                    }
                    if !class.is_empty() {
                        out.push((class, mat));
                    }
                }
            }
        }
    }
    out
}

fn cmd_run(a: &Args) -> i32 {
    let ctx = Ctx {
        prop: a.get("prop", "C13"),
        engine: a.get("engine", "native"),
        profile: a.get("profile", "release"),
        thorough: a.get("tier", "quick") == "thorough",
    };
    let seed = a.u64("seed", 1);
    let (from, to) = (a.u64("from", 0), a.u64("to", 100));
    let (offset, stride) = (a.u64("offset", 0), a.u64("stride", 1).max(1));
    let out = a.get("out", "");
    let max_secs = a.u64("max-secs", 0);
    let fresh = a.u64("fresh", 0) as usize;
    let t0 = std::time::Instant::now();
    let deadline = if max_secs > 0 { Some(t0 + std::time::Duration::from_secs(max_secs)) } else { None };
    init();
    let cfg = RunCfg {
        ctx: &ctx,
        a,
        seed,
        replay_dir: a.get("replay-dir", "/verif/replays"),
        progress: a.kv.get("progress").map(|p| std::fs::File::create(p).expect("progress file")),
        trace_cases: a.kv.contains_key("trace-cases"),
        want_digests: a.kv.contains_key("digests"),
        stride,
        known: load_known(a.kv.get("known-file")),
    };
    let mut indices = Vec::new();
    let mut i = from + ((offset + stride - (from % stride)) % stride);
    while i < to {
        indices.push(i);
        i += stride;
    }
    let mut stats = Stats::default();
    #[cfg(not(miri))]
    let rc = if fresh > 0 { run_forked(&cfg, &indices, fresh, &mut stats, deadline) } else { run_indices(&cfg, &indices, &mut stats, deadline) };
    #[cfg(miri)]
    let rc = {
        let _ = fresh;
        run_indices(&cfg, &indices, &mut stats, deadline)
    };
    stats.add("wall_ms", t0.elapsed().as_millis() as u64);
    if out == "-" {
        println!("STATS {}", serde_json::to_string(&stats).unwrap());
    } else if !out.is_empty() {
        std::fs::write(&out, serde_json::to_vec(&stats).unwrap()).expect("write stats");
    } else {
        println!("{}", serde_json::to_string(&stats.counters).unwrap());
    }
    rc
}

fn load_replay(path: &str) -> ReplayFile {
    let data = std::fs::read(path).unwrap_or_else(|e| {
        eprintln!("cannot read {}: {}", path, e);
        std::process::exit(2)
    });
    serde_json::from_slice(&data).unwrap_or_else(|e| {
        eprintln!("cannot parse {}: {}", path, e);
        std::process::exit(2)
    })
}

fn cmd_replay(a: &Args) -> i32 {
    let path = a.pos.get(1).cloned().unwrap_or_default();
    let rf = load_replay(&path);
    init();
    let mut stats = Stats::default();
    let miri = cfg!(miri);
    match run_case(&rf.case, &mut stats, miri) {
        Err(v) => {
            println!("  class={} detail={}", v.class, v.detail);
            if v.class == rf.class {
                println!("VIOLATION property={} replay={}", rf.property, path);
                1
            } else {
                println!("replay produced a different violation class (recorded {})", rf.class);
                println!("VIOLATION property={} replay={}", rf.property, path);
                1
            }
        },
        Ok(_) => {
            println!("replay of {} did not reproduce (recorded class {})", path, rf.class);
            2
        },
    }
}

fn cmd_exec_case(a: &Args) -> i32 {
    let path = a.pos.get(1).cloned().unwrap_or_default();
    let rf = load_replay(&path);
    init();
    let mut stats = Stats::default();
    match run_case(&rf.case, &mut stats, cfg!(miri)) {
        Err(v) => {
            println!("CLASS {}", v.class);
            1
        },
        Ok(_) => {
            println!("OK");
            0
        },
    }
}

/// Write the replay file of one run index without executing it (used by the
/// orchestrator when a monitor — Miri, ASan, ub-checks — killed the worker).
fn cmd_mkreplay(a: &Args) -> i32 {
    let ctx = Ctx {
        prop: a.get("prop", "C13"),
        engine: a.get("engine", "native"),
        profile: a.get("profile", "release"),
        thorough: a.get("tier", "quick") == "thorough",
    };
    let seed = a.u64("seed", 1);
    let i = a.u64("index", 0);
    let rs = rng::run_seed(seed, &ctx.prop, i);
    let case = gen_case(&ctx, rs);
    let rf = ReplayFile {
        property: ctx.prop.clone(),
        engine: ctx.engine.clone(),
        profile: ctx.profile.clone(),
        verif_seed: seed,
        run_index: i,
        run_seed: rs,
        class: a.get("class", "monitor-abort"),
        detail: a.get("detail", ""),
        minimised: false,
        original_ops: case_size(&case),
        minimised_ops: case_size(&case),
        engine_flags: a.get("engine-flags", ""),
        case,
    };
    let path = write_replay(&a.get("replay-dir", "/verif/replays"), &rf);
    println!("{}", path);
    0
}

/// Generate the cases of a range of run indices into `<dir>/<index>.json` without executing them.
fn cmd_mkbatch(a: &Args) -> i32 {
    let ctx = Ctx {
        prop: a.get("prop", "C13"),
        engine: a.get("engine", "native"),
        profile: a.get("profile", "release"),
        thorough: a.get("tier", "quick") == "thorough",
    };
    let seed = a.u64("seed", 1);
    let dir = a.get("dir", "/verif/work/batch");
    std::fs::create_dir_all(&dir).ok();
    for i in a.u64("from", 0)..a.u64("to", 0) {
        let rs = rng::run_seed(seed, &ctx.prop, i);
        let case = gen_case(&ctx, rs);
        let rf = ReplayFile {
            property: ctx.prop.clone(),
            engine: ctx.engine.clone(),
            profile: ctx.profile.clone(),
            verif_seed: seed,
            run_index: i,
            run_seed: rs,
            class: String::new(),
            detail: String::new(),
            minimised: false,
            original_ops: case_size(&case),
            minimised_ops: case_size(&case),
            engine_flags: String::new(),
            case,
        };
        std::fs::write(format!("{}/{}.json", dir, i), serde_json::to_vec(&rf).unwrap()).expect("write batch case");
    }
    0
}

/// Print the shrink candidates of a replay file's case as replay files into a
/// directory (external, monitor-driven minimisation).
fn cmd_candidates(a: &Args) -> i32 {
    let path = a.pos.get(1).cloned().unwrap_or_default();
    let dir = a.pos.get(2).cloned().unwrap_or_default();
    let rf = load_replay(&path);
    std::fs::create_dir_all(&dir).ok();
    let cands: Vec<Case> = match &rf.case {
        Case::Vec(c) => c.candidates().into_iter().map(Case::Vec).collect(),
        Case::Big(c) => c.candidates().into_iter().map(Case::Big).collect(),
        Case::Par(c) => c.candidates().into_iter().map(Case::Par).collect(),
    };
    for (k, c) in cands.into_iter().enumerate().take(a.u64("max", 64) as usize) {
        let mut r2 = rf.clone();
        r2.minimised_ops = case_size(&c);
        r2.case = c;
        r2.minimised = true;
        std::fs::write(format!("{}/cand{:04}.json", dir, k), serde_json::to_vec_pretty(&r2).unwrap()).unwrap();
    }
    0
}

fn cmd_selftest() -> i32 {
    init();
    let mut fails = 0;
    match nat::selftest(12345) {
        Ok(n) => println!("selftest nat: {} checks ok", n),
        Err(e) => {
            println!("selftest nat FAILED: {}", e);
            fails += 1;
        },
    }
    // every shape delivers exactly the bytes, on clones too, and is fused
    let mut r = rng::Rng::new(777);
    let mut n = 0;
    for round in 0..400 {
        let li = if round % 5 == 0 { 0 } else { r.usize_below(90) };
        let lf = r.usize_below(90);
        let bi: Vec<u8> = (0..li).map(|_| r.digit()).collect();
        let bf: Vec<u8> = (0..lf).map(|_| r.digit()).collect();
        for &ki in &shape::ALL_KINDS {
            for &kf in &shape::ALL_KINDS {
                if !shape::pair_allowed(ki, kf) {
                    continue;
                }
                let si = shape::ShapeSpec::draw(&mut r, ki, li);
                let sf = shape::ShapeSpec::draw(&mut r, kf, lf);
                let sti = shape::Store::build(&bi, &si);
                let stf = shape::Store::build(&bf, &sf);
                let (a, b, ok) = shape::with_pair(ki, kf, &sti, &stf, shape::CollectVisitor);
                if a != bi || b != bf || !ok {
                    println!("selftest shapes FAILED: {:?}/{:?} len {}/{}", si, sf, li, lf);
                    fails += 1;
                }
                n += 1;
            }
        }
    }
    println!("selftest shapes: {} pairs deliver the original bytes", n);
    // generator produces valid requests only
    let mut fam: BTreeMap<String, u64> = BTreeMap::new();
    for k in 0..20000u64 {
        let mut rr = rng::Rng::new(k);
        let i = gen::draw_input(&mut rr, gen::Mix::Balanced, k % 2 == 0, true);
        if !gen::is_valid(&i) {
            println!("selftest gen FAILED: invalid request from family {}", i.family);
            fails += 1;
        }
        let v = gen::related(&i, &mut rr);
        if !gen::is_valid(&v) {
            println!("selftest gen FAILED: invalid related request from family {}", v.family);
            fails += 1;
        }
        *fam.entry(i.family.split('+').next().unwrap().to_string()).or_insert(0) += 1;
    }
    println!("selftest gen: 40000 requests valid; families {:?}", fam);
    if fails == 0 {
        println!("SELFTEST OK");
        0
    } else {
        2
    }
}

fn main() {
    let a = parse_args();
    let rc = match a.pos.first().map(|s| s.as_str()) {
        Some("run") => cmd_run(&a),
        Some("replay") => cmd_replay(&a),
        Some("exec-case") => cmd_exec_case(&a),
        Some("mkreplay") => cmd_mkreplay(&a),
        Some("mkbatch") => cmd_mkbatch(&a),
        Some("candidates") => cmd_candidates(&a),
        Some("selftest") => cmd_selftest(),
        _ => {
            eprintln!("usage: sim run|replay|exec-case|mkreplay|candidates|selftest ...");
            2
        },
    };
    std::process::exit(rc);
}
