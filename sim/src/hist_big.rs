//! Engine H for C12: histories of big-integer operations (the `bigint`
//! module's public functions and the `Bigint` wrapper) on a capacity-limited
//! mutable object, against the simulator's own natural numbers (`Nat`).
//!
//! Oracle (DESIGN §4.C12): success ⇒ the *value* of the visible limbs equals
//! the model exactly; queries (compare, hi64 + sticky, bit length, leading
//! zeros) are applied to slots that are normalised *by construction* and must
//! return the model's answer; the stack back-end must report failure iff the
//! true result needs more than 62 limbs; after a reported failure the
//! contents are unspecified (only `len <= capacity` and readability are
//! checked) and the slot is rebuilt from the model.

use crate::common::{removal_ranges, Shrink, Stats, Violation};
use crate::hist_vec::{limb, CAP};
use crate::nat::Nat;
use crate::rng::{Fp, Rng};
use crate::worlds::{VecApi, World};
use serde::{Deserialize, Serialize};

pub const NSLOTS: usize = 3;

#[derive(Clone, Debug, Serialize, Deserialize, PartialEq, Eq)]
pub enum Operand {
    Slot(u8),
    Lit(Vec<u64>),
}

#[derive(Clone, Debug, Serialize, Deserialize, PartialEq, Eq)]
pub enum BOp {
    FromU64 { s: u8, x: u64 },
    BigFromU64 { s: u8, x: u64 },
    SetLimbs { s: u8, data: Vec<u64> },
    SmallAdd { s: u8, y: u64 },
    SmallAddFrom { s: u8, y: u64, start: usize },
    SmallMul { s: u8, y: u64 },
    LargeAdd { s: u8, y: Operand },
    LargeAddFrom { s: u8, y: Operand, start: usize },
    LongMul { dst: u8, a: Operand, b: Operand },
    LargeMul { s: u8, y: Operand },
    BigMulAssign { s: u8, y: u8 },
    Pow5 { s: u8, e: u32 },
    BigPow { s: u8, base: u32, e: u32 },
    Shl { s: u8, n: usize },
    ShlBits { s: u8, n: usize },
    ShlLimbs { s: u8, n: usize },
    Normalize { s: u8 },
    Compare { a: u8, b: u8 },
    Hi64 { s: u8 },
    BigHi64 { s: u8 },
    BitLength { s: u8 },
    BigBitLength { s: u8 },
    LeadingZeros { s: u8 },
    IsNormalized { s: u8 },
    CloneTo { dst: u8, src: u8 },
}

impl BOp {
    pub fn key(&self) -> &'static str {
        match self {
            BOp::FromU64 { .. } => "op.from_u64",
            BOp::BigFromU64 { .. } => "op.Bigint::from_u64",
            BOp::SetLimbs { .. } => "op.set_limbs",
            BOp::SmallAdd { .. } => "op.small_add",
            BOp::SmallAddFrom { .. } => "op.small_add_from",
            BOp::SmallMul { .. } => "op.small_mul",
            BOp::LargeAdd { .. } => "op.large_add",
            BOp::LargeAddFrom { .. } => "op.large_add_from",
            BOp::LongMul { .. } => "op.long_mul",
            BOp::LargeMul { .. } => "op.large_mul",
            BOp::BigMulAssign { .. } => "op.Bigint::mul_assign",
            BOp::Pow5 { .. } => "op.pow",
            BOp::BigPow { .. } => "op.Bigint::pow",
            BOp::Shl { .. } => "op.shl",
            BOp::ShlBits { .. } => "op.shl_bits",
            BOp::ShlLimbs { .. } => "op.shl_limbs",
            BOp::Normalize { .. } => "op.normalize",
            BOp::Compare { .. } => "op.compare",
            BOp::Hi64 { .. } => "op.hi64",
            BOp::BigHi64 { .. } => "op.Bigint::hi64",
            BOp::BitLength { .. } => "op.bit_length",
            BOp::BigBitLength { .. } => "op.Bigint::bit_length",
            BOp::LeadingZeros { .. } => "op.leading_zeros",
            BOp::IsNormalized { .. } => "op.is_normalized",
            BOp::CloneTo { .. } => "op.clone",
        }
    }
    pub fn fault_key(&self) -> &'static str {
        match self {
            BOp::FromU64 { .. } => "fault.from_u64",
            BOp::BigFromU64 { .. } => "fault.Bigint::from_u64",
            BOp::SetLimbs { .. } => "fault.set_limbs",
            BOp::SmallAdd { .. } => "fault.small_add",
            BOp::SmallAddFrom { .. } => "fault.small_add_from",
            BOp::SmallMul { .. } => "fault.small_mul",
            BOp::LargeAdd { .. } => "fault.large_add",
            BOp::LargeAddFrom { .. } => "fault.large_add_from",
            BOp::LongMul { .. } => "fault.long_mul",
            BOp::LargeMul { .. } => "fault.large_mul",
            BOp::BigMulAssign { .. } => "fault.Bigint::mul_assign",
            BOp::Pow5 { .. } => "fault.pow",
            BOp::BigPow { .. } => "fault.Bigint::pow",
            BOp::Shl { .. } => "fault.shl",
            BOp::ShlBits { .. } => "fault.shl_bits",
            BOp::ShlLimbs { .. } => "fault.shl_limbs",
            BOp::Normalize { .. } => "fault.normalize",
            BOp::Compare { .. } => "fault.compare",
            BOp::Hi64 { .. } => "fault.hi64",
            BOp::BigHi64 { .. } => "fault.Bigint::hi64",
            BOp::BitLength { .. } => "fault.bit_length",
            BOp::BigBitLength { .. } => "fault.Bigint::bit_length",
            BOp::LeadingZeros { .. } => "fault.leading_zeros",
            BOp::IsNormalized { .. } => "fault.is_normalized",
            BOp::CloneTo { .. } => "fault.clone",
        }
    }
    pub fn name(&self) -> &'static str {
        match self {
            BOp::FromU64 { .. } => "from_u64",
            BOp::BigFromU64 { .. } => "Bigint::from_u64",
            BOp::SetLimbs { .. } => "set_limbs",
            BOp::SmallAdd { .. } => "small_add",
            BOp::SmallAddFrom { .. } => "small_add_from",
            BOp::SmallMul { .. } => "small_mul",
            BOp::LargeAdd { .. } => "large_add",
            BOp::LargeAddFrom { .. } => "large_add_from",
            BOp::LongMul { .. } => "long_mul",
            BOp::LargeMul { .. } => "large_mul",
            BOp::BigMulAssign { .. } => "Bigint::mul_assign",
            BOp::Pow5 { .. } => "pow",
            BOp::BigPow { .. } => "Bigint::pow",
            BOp::Shl { .. } => "shl",
            BOp::ShlBits { .. } => "shl_bits",
            BOp::ShlLimbs { .. } => "shl_limbs",
            BOp::Normalize { .. } => "normalize",
            BOp::Compare { .. } => "compare",
            BOp::Hi64 { .. } => "hi64",
            BOp::BigHi64 { .. } => "Bigint::hi64",
            BOp::BitLength { .. } => "bit_length",
            BOp::BigBitLength { .. } => "Bigint::bit_length",
            BOp::LeadingZeros { .. } => "leading_zeros",
            BOp::IsNormalized { .. } => "is_normalized",
            BOp::CloneTo { .. } => "clone",
        }
    }
}

#[derive(Clone, Debug, Serialize, Deserialize)]
pub struct BigCase {
    pub world: usize,
    pub poison: Option<u64>,
    /// true: operands are steered onto the capacity (fault-steered configuration)
    pub steered: bool,
    pub ops: Vec<BOp>,
}

struct Slot<V> {
    v: V,
    val: Nat,
    /// normalised by construction (see module docs)
    norm: bool,
    /// heap back-end: the storage was created by `new` / `try_from` / `from_u64` (design
    /// capacity 62 limbs), not by `Clone` (which allocates exactly `len`, DESIGN 7.2)
    fresh: bool,
}

fn viol(clause: &str, step: usize, op: &BOp, detail: String) -> Violation {
    Violation::new(format!("C12/{}", clause), format!("step {} {}: {}", step, op.name(), detail))
}

#[derive(Default, Clone, Debug)]
pub struct BigRunInfo {
    pub faults: u64,
    pub fp: u64,
    pub at_capacity: u64,
}

fn lit_norm(d: &[u64]) -> bool {
    d.last() != Some(&0)
}

/// Execute one history.
pub fn run_case<W: World>(case: &BigCase, stats: &mut Stats) -> Result<BigRunInfo, Violation> {
    let stack = !W::ALLOC;
    W::set_poison(case.poison);
    let mut info = BigRunInfo::default();
    let mut fp = Fp::new();
    let mut sl: Vec<Slot<W::V>> =
        (0..NSLOTS).map(|_| Slot { v: W::V::v_new(), val: Nat::zero(), norm: true, fresh: true }).collect();

    for (step, op) in case.ops.iter().enumerate() {
        stats.inc(op.key());
        fp.push(op.name().len() as u64 * 131 + op.name().as_bytes()[op.name().len() - 1] as u64);

        // resolve an operand to (limbs, value, normalised-by-construction)
        let resolve = |o: &Operand, sl: &Vec<Slot<W::V>>| -> (Vec<u64>, Nat, bool) {
            match o {
                Operand::Slot(k) => {
                    let s = &sl[*k as usize];
                    (s.v.to_vec(), s.val.clone(), s.norm)
                },
                Operand::Lit(d) => (d.clone(), Nat::from_limbs64(d), lit_norm(d)),
            }
        };

        // ---- queries and non-failing ops first ----
        match op {
            BOp::FromU64 { s, x } => {
                sl[*s as usize] = Slot { v: W::from_u64(*x), val: Nat::from_u64(*x), norm: true, fresh: true };
                check_value::<W>(&sl, *s, step, op)?;
                continue;
            },
            BOp::BigFromU64 { s, x } => {
                sl[*s as usize] = Slot { v: W::bigint_from_u64(*x), val: Nat::from_u64(*x), norm: true, fresh: true };
                check_value::<W>(&sl, *s, step, op)?;
                continue;
            },
            BOp::SetLimbs { s, data } => {
                let d: &[u64] = if stack && data.len() > CAP { &data[..CAP] } else { data };
                let v = W::V::v_try_from(d).expect("harness: try_from within capacity");
                sl[*s as usize] = Slot { v, val: Nat::from_limbs64(d), norm: lit_norm(d), fresh: true };
                if !lit_norm(d) {
                    stats.inc("reach.unnormalised_operand_injected");
                }
                continue;
            },
            BOp::Normalize { s } => {
                let t = &mut sl[*s as usize];
                W::normalize(&mut t.v);
                t.norm = true;
                if t.v.last() == Some(&0) {
                    return Err(viol("normalize", step, op, "top limb still zero after normalize".into()));
                }
                check_value::<W>(&sl, *s, step, op)?;
                continue;
            },
            BOp::CloneTo { dst, src } => {
                let c = Slot { v: sl[*src as usize].v.clone(), val: sl[*src as usize].val.clone(), norm: sl[*src as usize].norm, fresh: false };
                sl[*dst as usize] = c;
                check_value::<W>(&sl, *dst, step, op)?;
                continue;
            },
            BOp::IsNormalized { s } => {
                let t = &sl[*s as usize];
                let got = W::is_normalized(&t.v);
                let want = t.v.last() != Some(&0);
                if got != want || (t.norm && !got) {
                    return Err(viol("is_normalized", step, op, format!("gave {}, by-construction {}", got, t.norm)));
                }
                continue;
            },
            BOp::Compare { a, b } => {
                let (x, y) = (&sl[*a as usize], &sl[*b as usize]);
                if x.norm && y.norm {
                    let got = W::compare(&x.v, &y.v);
                    let want = x.val.cmp(&y.val);
                    stats.inc("query.compare");
                    if got != want {
                        return Err(viol("compare", step, op, format!("gave {:?}, numeric order {:?}", got, want)));
                    }
                } else {
                    stats.inc("skipped.query_on_unnormalised");
                }
                continue;
            },
            BOp::Hi64 { s } | BOp::BigHi64 { s } => {
                let t = &sl[*s as usize];
                if t.norm {
                    let got = if matches!(op, BOp::Hi64 { .. }) { W::hi64(&t.v) } else { W::bigint_hi64(&t.v) };
                    let want = t.val.hi64();
                    stats.inc("query.hi64");
                    if want.1 {
                        stats.inc("reach.hi64_sticky_set");
                        // sticky only from a limb >= 10 positions down?
                        let bl = t.val.bit_length();
                        if bl > 64 * 11 && !t.val.shr(bl - 64 * 10).low_bits_nonzero(64 * 10 - 64) && bl > 64 {
                            stats.inc("reach.hi64_sticky_only_from_far_limb");
                        }
                    }
                    if got != want {
                        return Err(viol("hi64", step, op, format!("gave {:x?}, reference {:x?}", got, want)));
                    }
                } else {
                    stats.inc("skipped.query_on_unnormalised");
                }
                continue;
            },
            BOp::BitLength { s } | BOp::BigBitLength { s } => {
                let t = &sl[*s as usize];
                if t.norm {
                    let got =
                        if matches!(op, BOp::BitLength { .. }) { W::bit_length(&t.v) } else { W::bigint_bit_length(&t.v) };
                    stats.inc("query.bit_length");
                    if got as usize != t.val.bit_length() {
                        return Err(viol("bit_length", step, op, format!("gave {}, reference {}", got, t.val.bit_length())));
                    }
                } else {
                    stats.inc("skipped.query_on_unnormalised");
                }
                continue;
            },
            BOp::LeadingZeros { s } => {
                let t = &sl[*s as usize];
                if t.norm {
                    let got = W::leading_zeros(&t.v) as usize;
                    let want = if t.val.is_zero() { 0 } else { t.val.limbs64() * 64 - t.val.bit_length() };
                    if got != want {
                        return Err(viol("leading_zeros", step, op, format!("gave {}, reference {}", got, want)));
                    }
                } else {
                    stats.inc("skipped.query_on_unnormalised");
                }
                continue;
            },
            _ => {},
        }

        // ---- mutating, fallible operations ----
        // (dest slot, expected value, all operands normalised-by-construction,
        //  result normalised-by-construction, slack = superfluous zero limbs involved)
        let dest: u8;
        let want: Nat;
        let mut all_norm: bool;
        let res_norm: bool;
        let mut slack: usize;
        let mut skip = false;
        let len0;
        let cap0;
        let fresh0;
        let mut may_fail_on_heap = false; // shl_limbs family
        let mut heap_exact_fail: Option<bool> = None;
        let mut panics_instead = false;
        {
            let d = |k: u8| &sl[k as usize];
            let slack_of = |k: u8| d(k).v.len() - d(k).val.limbs64();
            match op {
                BOp::SmallAdd { s, y } => {
                    dest = *s;
                    want = d(*s).val.add_u64(*y);
                    all_norm = d(*s).norm;
                    res_norm = all_norm;
                    slack = slack_of(*s);
                },
                BOp::SmallAddFrom { s, y, start } => {
                    dest = *s;
                    // callers establish start <= len; beyond that it appends at len, not at start
                    let st = (*start).min(d(*s).v.len());
                    want = d(*s).val.add(&Nat::from_u64(*y).shl(64 * st));
                    all_norm = d(*s).norm;
                    res_norm = all_norm;
                    slack = slack_of(*s);
                },
                BOp::SmallMul { s, y } => {
                    dest = *s;
                    want = d(*s).val.mul_u64(*y);
                    all_norm = d(*s).norm;
                    res_norm = all_norm && (*y != 0 || d(*s).v.is_empty());
                    slack = slack_of(*s);
                },
                BOp::LargeAdd { s, y } | BOp::LargeAddFrom { s, y, .. } => {
                    dest = *s;
                    let start = if let BOp::LargeAddFrom { start, .. } = op { *start } else { 0 };
                    let (yl, yv, yn) = resolve(y, &sl);
                    want = d(*s).val.add(&yv.shl(64 * start));
                    all_norm = d(*s).norm && yn;
                    res_norm = all_norm;
                    slack = slack_of(*s) + (yl.len() - yv.limbs64());
                    if yv.is_zero() && !yl.is_empty() {
                        // a zero operand spelled with limbs: start + len may exceed the capacity legitimately
                        slack += start;
                    }
                    if start > 0 && d(*s).v.len() < start {
                        // zero-extension up to `start` happens only when y is non-empty
                        if yl.is_empty() {
                            // nothing happens at all
                        }
                    }
                },
                BOp::LongMul { dst, a, b } => {
                    dest = *dst;
                    let (al, av, an) = resolve(a, &sl);
                    let (bl, bv, bn) = resolve(b, &sl);
                    // precondition: non-zero, normalised factors
                    if av.is_zero() || bv.is_zero() || !an || !bn || !lit_norm(&al) || !lit_norm(&bl) {
                        skip = true;
                    }
                    want = av.mul(&bv);
                    all_norm = true;
                    res_norm = true;
                    slack = 0;
                },
                BOp::LargeMul { s, y } => {
                    dest = *s;
                    let (yl, yv, yn) = resolve(y, &sl);
                    if d(*s).val.is_zero() || yv.is_zero() || !d(*s).norm || !yn || !lit_norm(&yl) || !lit_norm(&d(*s).v) {
                        skip = true;
                    }
                    want = d(*s).val.mul(&yv);
                    all_norm = true;
                    res_norm = true;
                    slack = 0;
                },
                BOp::BigMulAssign { s, y } => {
                    dest = *s;
                    let (yl, yv, yn) = resolve(&Operand::Slot(*y), &sl);
                    if d(*s).val.is_zero() || yv.is_zero() || !d(*s).norm || !yn || !lit_norm(&yl) || !lit_norm(&d(*s).v) {
                        skip = true;
                    }
                    want = d(*s).val.mul(&yv);
                    all_norm = true;
                    res_norm = true;
                    slack = 0;
                    panics_instead = true;
                },
                BOp::Pow5 { s, e } => {
                    dest = *s;
                    want = d(*s).val.mul(&Nat::pow_fast(5, *e));
                    all_norm = d(*s).norm;
                    res_norm = all_norm;
                    slack = slack_of(*s);
                    if !lit_norm(&d(*s).v) || d(*s).val.is_zero() && !d(*s).v.is_empty() {
                        // multi-limb multiplication by 5^135 asserts normalised non-zero input
                        if *e >= 135 && !W::COMPACT {
                            skip = true;
                        }
                    }
                    if d(*s).val.is_zero() && *e >= 135 && !W::COMPACT {
                        skip = true; // non-zero factors for multi-limb multiplication
                    }
                },
                BOp::BigPow { s, base, e } => {
                    dest = *s;
                    let f = match base {
                        2 => Nat::from_u64(1).shl(*e as usize),
                        5 => Nat::pow_fast(5, *e),
                        _ => Nat::pow_fast(5, *e).shl(*e as usize),
                    };
                    want = d(*s).val.mul(&f);
                    all_norm = d(*s).norm;
                    res_norm = all_norm;
                    slack = slack_of(*s);
                    if d(*s).val.is_zero() {
                        skip = true; // non-zero operands (shift of an empty vector can fail spuriously)
                    }
                    if !lit_norm(&d(*s).v) && *base != 2 && *e >= 135 && !W::COMPACT {
                        skip = true;
                    }
                    if *base != 5 {
                        may_fail_on_heap = true;
                    }
                },
                BOp::Shl { s, n } => {
                    dest = *s;
                    want = d(*s).val.shl(*n);
                    all_norm = d(*s).norm;
                    res_norm = all_norm;
                    slack = slack_of(*s);
                    if d(*s).val.is_zero() {
                        skip = true;
                    }
                    may_fail_on_heap = true;
                },
                BOp::ShlBits { s, n } => {
                    dest = *s;
                    let n = (*n).clamp(1, 63);
                    want = d(*s).val.shl(n);
                    all_norm = d(*s).norm;
                    res_norm = all_norm;
                    slack = slack_of(*s);
                },
                BOp::ShlLimbs { s, n } => {
                    dest = *s;
                    let n = (*n).max(1);
                    want = d(*s).val.shl(64 * n);
                    all_norm = d(*s).norm;
                    res_norm = all_norm;
                    slack = slack_of(*s);
                    if d(*s).val.is_zero() {
                        skip = true;
                    }
                    may_fail_on_heap = true;
                    if !stack {
                        let l = d(*s).v.len();
                        heap_exact_fail = Some(l != 0 && n + l > d(*s).v.v_capacity());
                    }
                },
                _ => unreachable!(),
            }
            len0 = d(dest).v.len();
            cap0 = d(dest).v.v_capacity();
            fresh0 = d(dest).fresh;
        }
        let _ = len0;
        if skip {
            stats.inc("skipped.precondition");
            continue;
        }
        let before_val = sl[dest as usize].val.clone();
        let before_norm = sl[dest as usize].norm;

        // perform
        let result: Result<Option<()>, String> = {
            // operands that alias the destination are copied out first
            let (yl, al, bl): (Vec<u64>, Vec<u64>, Vec<u64>) = match op {
                BOp::LargeAdd { y, .. } | BOp::LargeAddFrom { y, .. } | BOp::LargeMul { y, .. } => {
                    (resolve(y, &sl).0, vec![], vec![])
                },
                BOp::LongMul { a, b, .. } => (vec![], resolve(a, &sl).0, resolve(b, &sl).0),
                _ => (vec![], vec![], vec![]),
            };
            let ycl = if let BOp::BigMulAssign { y, .. } = op { Some(sl[*y as usize].v.clone()) } else { None };
            let t = &mut sl[dest as usize];
            let tv = &mut t.v;
            crate::common::catch(move || match op {
                BOp::SmallAdd { y, .. } => W::small_add(tv, *y),
                BOp::SmallAddFrom { y, start, .. } => {
                    let st = (*start).min(tv.len());
                    W::small_add_from(tv, *y, st)
                },
                BOp::SmallMul { y, .. } => W::small_mul(tv, *y),
                BOp::LargeAdd { .. } => W::large_add(tv, &yl),
                BOp::LargeAddFrom { start, .. } => W::large_add_from(tv, &yl, *start),
                BOp::LongMul { .. } => W::long_mul(&al, &bl).map(|z| {
                    *tv = z;
                }),
                BOp::LargeMul { .. } => W::large_mul(tv, &yl),
                BOp::BigMulAssign { .. } => {
                    let y = ycl.unwrap();
                    W::bigint_mul_assign(tv, &y);
                    Some(())
                },
                BOp::Pow5 { e, .. } => W::pow5(tv, *e),
                BOp::BigPow { base, e, .. } => W::bigint_pow(tv, *base, *e),
                BOp::Shl { n, .. } => W::shl(tv, *n),
                BOp::ShlBits { n, .. } => W::shl_bits(tv, (*n).clamp(1, 63)),
                BOp::ShlLimbs { n, .. } => W::shl_limbs(tv, (*n).max(1)),
                _ => unreachable!(),
            })
        };

        let need = want.limbs64();
        if need >= CAP - 1 && need <= CAP + 1 {
            info.at_capacity += 1;
            stats.inc("reach.result_within_one_limb_of_capacity");
            if need == CAP {
                stats.inc("reach.result_exactly_62_limbs");
            }
        }
        stats.max("max.result_limbs", need as u64);
        if slack > 0 {
            all_norm = false;
        }
        let succeeded = match &result {
            Ok(Some(())) => true,
            Ok(None) => false,
            Err(_) => false,
        };
        if let Err(site) = &result {
            // A panic is a reported failure. It is accepted where the statement leaves
            // the range: `*=` (documented to panic when the product does not fit) and, on
            // the heap back-end, results beyond the 62-limb design capacity.
            let beyond_design = !stack && need + slack > CAP;
            if !panics_instead && !beyond_design {
                return Err(viol("panic", step, op, format!("operation panicked at {}", site)));
            }
            if beyond_design {
                stats.inc("note.heap_panic_beyond_design_capacity");
            }
        }
        if succeeded {
            // must be exact
            let t = &mut sl[dest as usize];
            if stack && need > CAP {
                return Err(viol(
                    "overflow-not-reported",
                    step,
                    op,
                    format!("true result needs {} limbs but the operation reported success (len {})", need, t.v.len()),
                ));
            }
            t.val = want;
            if matches!(op, BOp::LongMul { .. }) {
                t.fresh = true; // the product is a new vector made by try_from
            }
            t.norm = res_norm && slack == 0 || (res_norm && before_norm);
            check_value::<W>(&sl, dest, step, op)?;
        } else {
            // reported failure (None, or the documented panic of `*=`)
            info.faults += 1;
            stats.inc(op.fault_key());
            let legit = if stack {
                if all_norm {
                    need > CAP
                } else {
                    need + slack > CAP
                }
            } else if let Some(exact) = heap_exact_fail {
                exact
            } else if may_fail_on_heap {
                // available capacity = the vector's own capacity (DESIGN §7.2)
                (!fresh0 && cap0 < CAP) || need + slack > CAP
            } else {
                // beyond the 62-limb design capacity the statement only demands
                // "exact or reported failure"; within it the heap back-end never fails
                need + slack > CAP
            };
            if !legit {
                return Err(viol(
                    "spurious-failure",
                    step,
                    op,
                    format!("failure reported although the result needs {} limbs (slack {}, capacity before {})", need, slack, cap0),
                ));
            }
            if !stack {
                stats.inc("note.heap_shift_refused_by_own_capacity");
            }
            let t = &mut sl[dest as usize];
            if t.v.v_len() > t.v.v_capacity() || (stack && t.v.v_len() > CAP) {
                return Err(viol("len<=capacity", step, op, format!("len {} after reported failure", t.v.v_len())));
            }
            // readable (Miri: initialised)
            let mut acc = 0u64;
            for &l in t.v.iter() {
                acc ^= l;
            }
            std::hint::black_box(acc);
            // contents unspecified: rebuild from the model
            let lim = before_val.to_limbs64();
            t.v = W::V::v_try_from(&lim).expect("harness: rebuild within capacity");
            t.val = before_val;
            t.norm = true;
            t.fresh = true;
        }
        if let (Some(true), false, true) = (heap_exact_fail, succeeded, fresh0) {
            if need + slack <= CAP {
                return Err(viol(
                    "spurious-failure",
                    step,
                    op,
                    format!("shl_limbs refused a shift within the 62-limb design capacity on a vector created by new/try_from/from_u64 (its capacity is {})", cap0),
                ));
            }
        }
        // the explicit heap-exact rule also demands failure when predicted
        if let (Some(true), true) = (heap_exact_fail, succeeded) {
            return Err(viol("capacity", step, op, "shl_limbs beyond the vector's capacity succeeded".into()));
        }
    }
    info.fp = fp.finish();
    Ok(info)
}

fn check_value<W: World>(sl: &[Slot<W::V>], k: u8, step: usize, op: &BOp) -> Result<(), Violation> {
    let t = &sl[k as usize];
    if t.v.v_len() > t.v.v_capacity() {
        return Err(viol("len<=capacity", step, op, format!("len {} capacity {}", t.v.v_len(), t.v.v_capacity())));
    }
    let got = Nat::from_limbs64(&t.v);
    if got != t.val {
        let gl = got.to_limbs64();
        let wl = t.val.to_limbs64();
        let first = gl.iter().zip(wl.iter()).position(|(a, b)| a != b);
        return Err(viol(
            "value",
            step,
            op,
            format!(
                "value differs from the natural-number result: got {} limbs, reference {} limbs, first differing limb {:?}",
                gl.len(),
                wl.len(),
                first
            ),
        ));
    }
    Ok(())
}

// ---------------------------------------------------------------------------
// generation
// ---------------------------------------------------------------------------

const EXPS: [u32; 20] = [0, 1, 2, 13, 26, 27, 28, 53, 54, 55, 134, 135, 136, 162, 269, 270, 271, 300, 405, 700];

fn draw_exp(r: &mut Rng) -> u32 {
    if r.chance(3, 4) {
        *r.pick(&EXPS)
    } else {
        r.below(1400) as u32
    }
}

fn draw_shift(r: &mut Rng) -> usize {
    match r.below(4) {
        0 => *r.pick(&[1usize, 31, 32, 33, 63, 64, 65, 127, 128, 129, 191, 192]),
        1 => 64 * r.usize_below(63) + *r.pick(&[0usize, 1, 63]),
        2 => r.usize_below(64 * 64),
        _ => r.usize_below(200),
    }
}

/// A normalised random value of exactly `bits` bits, limbs from the adversarial alphabet.
fn value_with_bits(r: &mut Rng, bits: usize) -> Vec<u64> {
    if bits == 0 {
        return vec![];
    }
    let n = (bits + 63) / 64;
    let mut v: Vec<u64> = (0..n).map(|_| limb(r)).collect();
    let top_bits = bits - (n - 1) * 64;
    let mut t = v[n - 1];
    if top_bits < 64 {
        t &= (1u64 << top_bits) - 1;
    }
    t |= 1u64 << (top_bits - 1);
    v[n - 1] = t;
    v
}

fn draw_lit(r: &mut Rng, max_limbs: usize) -> Vec<u64> {
    let n = 1 + r.usize_below(max_limbs.max(1));
    let bits = (n - 1) * 64 + 1 + r.usize_below(64);
    value_with_bits(r, bits)
}

pub fn gen_case(seed: u64, world: usize, native_poison: bool, steered: bool, max_ops: usize) -> BigCase {
    let mut r = Rng::new(seed);
    let nops = 3 + r.usize_below(max_ops.saturating_sub(2).max(1));
    // the generator tracks approximate bit lengths to steer onto the capacity
    let mut bits = [0usize; NSLOTS];
    let mut ops: Vec<BOp> = Vec::with_capacity(nops + 4);
    let target = |r: &mut Rng| -> usize { (CAP * 64 - 70) + r.usize_below(141) };
    // start every history with something non-zero in each slot
    for s in 0..NSLOTS as u8 {
        let l = draw_lit(&mut r, if steered { 30 } else { 6 });
        bits[s as usize] = Nat::from_limbs64(&l).bit_length();
        ops.push(BOp::SetLimbs { s, data: l });
    }
    while ops.len() < nops {
        let s = r.below(NSLOTS as u64) as u8;
        let o = (s + 1 + r.below(2) as u8) % NSLOTS as u8;
        let b = bits[s as usize];
        let steer = steered && r.chance(3, 10) && b > 0 && b < CAP * 64 - 80;
        let op = if steer {
            let t = target(&mut r);
            match r.below(6) {
                0 => BOp::Shl { s, n: t - b },
                1 => BOp::ShlLimbs { s, n: ((t - b) / 64).max(1) },
                2 => BOp::Pow5 { s, e: (((t - b) as f64) / 2.321928).round() as u32 },
                3 => BOp::BigPow { s, base: 10, e: (((t - b) as f64) / 3.321928).round() as u32 },
                4 => {
                    let l = value_with_bits(&mut r, (t - b).max(1));
                    if r.chance(1, 2) {
                        BOp::LargeMul { s, y: Operand::Lit(l) }
                    } else {
                        BOp::LongMul { dst: s, a: Operand::Slot(s), b: Operand::Lit(l) }
                    }
                },
                _ => {
                    // put a value right at the capacity into the slot, then nudge it
                    let tb = (CAP * 64).min(t);
                    let mut v = value_with_bits(&mut r, tb);
                    if r.chance(1, 2) {
                        for l in v.iter_mut() {
                            *l = u64::MAX;
                        }
                        let n = v.len();
                        if tb % 64 != 0 {
                            v[n - 1] = (1u64 << (tb % 64)) - 1;
                        }
                    }
                    BOp::SetLimbs { s, data: v }
                },
            }
        } else {
            match r.below(40) {
                0 => BOp::FromU64 { s, x: limb(&mut r) },
                1 => BOp::BigFromU64 { s, x: limb(&mut r) },
                2 | 3 => {
                    let mut l = draw_lit(&mut r, if steered { 40 } else { 8 });
                    if r.chance(1, 7) {
                        l.push(0); // unnormalised on purpose
                    }
                    BOp::SetLimbs { s, data: l }
                },
                4 | 5 => BOp::SmallAdd { s, y: limb(&mut r) },
                6 => BOp::SmallAddFrom { s, y: limb(&mut r), start: r.usize_below(b / 64 + 2) },
                7 | 8 => BOp::SmallMul { s, y: if r.chance(1, 12) { 0 } else { limb(&mut r) } },
                9 | 10 => BOp::LargeAdd {
                    s,
                    y: if r.chance(1, 2) { Operand::Slot(o) } else { Operand::Lit(draw_lit(&mut r, 12)) },
                },
                11 | 12 => BOp::LargeAddFrom {
                    s,
                    y: if r.chance(1, 2) { Operand::Slot(o) } else { Operand::Lit(draw_lit(&mut r, 8)) },
                    start: r.usize_below(b / 64 + 4),
                },
                13 | 14 => BOp::LongMul {
                    dst: s,
                    a: if r.chance(2, 3) { Operand::Slot(s) } else { Operand::Lit(draw_lit(&mut r, 10)) },
                    b: if r.chance(1, 2) { Operand::Slot(o) } else { Operand::Lit(draw_lit(&mut r, 10)) },
                },
                15 | 16 => BOp::LargeMul {
                    s,
                    y: match r.below(6) {
                        0 => Operand::Slot(s),
                        1 | 2 => Operand::Slot(o),
                        _ => Operand::Lit(draw_lit(&mut r, 6)),
                    },
                },
                17 => BOp::BigMulAssign { s, y: if r.chance(1, 3) { s } else { o } }, // (a third are squarings: rhs == self)
                18 | 19 | 20 => BOp::Pow5 { s, e: draw_exp(&mut r) },
                21 | 22 => BOp::BigPow { s, base: *r.pick(&[2u32, 5, 10, 10]), e: draw_exp(&mut r) },
                23 | 24 => BOp::Shl { s, n: draw_shift(&mut r) },
                25 => BOp::ShlBits { s, n: 1 + r.usize_below(63) },
                26 => {
                    let hi = if r.chance(1, 4) { 63 } else { 8 };
                    BOp::ShlLimbs { s, n: 1 + r.usize_below(hi) }
                },
                27 => BOp::Normalize { s },
                28 | 29 | 30 => BOp::Compare { a: s, b: o },
                31 | 32 | 33 => BOp::Hi64 { s },
                34 => BOp::BigHi64 { s },
                35 => BOp::BitLength { s },
                36 => BOp::BigBitLength { s },
                37 => BOp::LeadingZeros { s },
                38 => BOp::IsNormalized { s },
                _ => BOp::CloneTo { dst: s, src: o },
            }
        };
        // approximate bit tracking (only used for steering)
        match &op {
            BOp::SetLimbs { s, data } => bits[*s as usize] = Nat::from_limbs64(data).bit_length(),
            BOp::FromU64 { s, x } | BOp::BigFromU64 { s, x } => bits[*s as usize] = 64 - x.leading_zeros() as usize,
            BOp::Shl { s, n } => bits[*s as usize] += n,
            BOp::ShlBits { s, n } => bits[*s as usize] += n,
            BOp::ShlLimbs { s, n } => bits[*s as usize] += 64 * n,
            BOp::Pow5 { s, e } => bits[*s as usize] += (*e as f64 * 2.321928) as usize,
            BOp::BigPow { s, base, e } => {
                bits[*s as usize] += (*e as f64
                    * match base {
                        2 => 1.0,
                        5 => 2.321928,
                        _ => 3.321928,
                    }) as usize
            },
            BOp::SmallMul { s, y } => bits[*s as usize] += 64 - y.leading_zeros() as usize,
            BOp::LargeMul { s, y } | BOp::LongMul { dst: s, b: y, .. } => {
                bits[*s as usize] += match y {
                    Operand::Lit(l) => Nat::from_limbs64(l).bit_length(),
                    Operand::Slot(k) => bits[*k as usize],
                }
            },
            BOp::BigMulAssign { s, y } => bits[*s as usize] += bits[*y as usize],
            BOp::CloneTo { dst, src } => bits[*dst as usize] = bits[*src as usize],
            _ => {},
        }
        for bb in bits.iter_mut() {
            if *bb > CAP * 64 + 64 {
                // (failed; slot keeps its old value) — re-estimate conservatively
                *bb = CAP * 32;
            }
        }
        let was_mut = !matches!(
            op,
            BOp::Compare { .. } | BOp::Hi64 { .. } | BOp::BigHi64 { .. } | BOp::BitLength { .. } | BOp::BigBitLength { .. }
        );
        ops.push(op);
        // the callers' pattern: mutate, then query with nothing in between
        if was_mut && r.chance(1, 2) {
            ops.push(match r.below(5) {
                0 | 1 => BOp::Hi64 { s },
                2 => BOp::BitLength { s },
                3 => BOp::Compare { a: s, b: o },
                _ => BOp::BigBitLength { s },
            });
        }
    }
    BigCase { world, poison: if native_poison { Some(r.next_u64() | 1) } else { None }, steered, ops }
}

// ---------------------------------------------------------------------------
// shrinking
// ---------------------------------------------------------------------------

fn shorter(d: &[u64]) -> Vec<Vec<u64>> {
    let mut v = Vec::new();
    if d.len() > 1 {
        v.push(d[d.len() / 2..].to_vec());
        v.push(d[1..].to_vec());
    }
    if d.iter().any(|&x| x != 1 && x != u64::MAX) {
        v.push(d.iter().map(|&x| if x == 0 { 0 } else { 1 }).collect());
    }
    v
}

fn simpler_operand(o: &Operand) -> Vec<Operand> {
    match o {
        Operand::Lit(d) => shorter(d).into_iter().map(Operand::Lit).collect(),
        Operand::Slot(_) => vec![],
    }
}

fn simpler_op(op: &BOp) -> Vec<BOp> {
    let mut out = Vec::new();
    match op {
        BOp::SetLimbs { s, data } => {
            for d in shorter(data) {
                out.push(BOp::SetLimbs { s: *s, data: d });
            }
        },
        BOp::LargeAdd { s, y } => {
            for o in simpler_operand(y) {
                out.push(BOp::LargeAdd { s: *s, y: o });
            }
        },
        BOp::LargeAddFrom { s, y, start } => {
            for o in simpler_operand(y) {
                out.push(BOp::LargeAddFrom { s: *s, y: o, start: *start });
            }
            if *start > 0 {
                out.push(BOp::LargeAddFrom { s: *s, y: y.clone(), start: start / 2 });
            }
        },
        BOp::LongMul { dst, a, b } => {
            for o in simpler_operand(a) {
                out.push(BOp::LongMul { dst: *dst, a: o, b: b.clone() });
            }
            for o in simpler_operand(b) {
                out.push(BOp::LongMul { dst: *dst, a: a.clone(), b: o });
            }
        },
        BOp::LargeMul { s, y } => {
            for o in simpler_operand(y) {
                out.push(BOp::LargeMul { s: *s, y: o });
            }
        },
        BOp::Pow5 { s, e } if *e > 0 => {
            out.push(BOp::Pow5 { s: *s, e: e / 2 });
            out.push(BOp::Pow5 { s: *s, e: e - 1 });
        },
        BOp::BigPow { s, base, e } if *e > 0 => {
            out.push(BOp::BigPow { s: *s, base: *base, e: e / 2 });
            out.push(BOp::BigPow { s: *s, base: *base, e: e - 1 });
        },
        BOp::Shl { s, n } if *n > 1 => {
            out.push(BOp::Shl { s: *s, n: n / 2 });
            out.push(BOp::Shl { s: *s, n: n - 1 });
        },
        BOp::ShlLimbs { s, n } if *n > 1 => out.push(BOp::ShlLimbs { s: *s, n: n - 1 }),
        BOp::ShlBits { s, n } if *n > 1 => out.push(BOp::ShlBits { s: *s, n: n / 2 }),
        BOp::SmallAdd { s, y } if *y != 1 => out.push(BOp::SmallAdd { s: *s, y: 1 }),
        BOp::SmallMul { s, y } if *y != 2 => out.push(BOp::SmallMul { s: *s, y: 2 }),
        BOp::FromU64 { s, x } if *x != 1 => out.push(BOp::FromU64 { s: *s, x: 1 }),
        _ => {},
    }
    out
}

impl Shrink for BigCase {
    fn candidates(&self) -> Vec<BigCase> {
        let mut out = Vec::new();
        let mk = |ops: Vec<BOp>| BigCase { world: self.world, poison: self.poison, steered: self.steered, ops };
        for (a, b) in removal_ranges(self.ops.len()) {
            let mut ops = self.ops.clone();
            ops.drain(a..b);
            out.push(mk(ops));
        }
        for (i, op) in self.ops.iter().enumerate() {
            for s in simpler_op(op) {
                let mut ops = self.ops.clone();
                ops[i] = s;
                out.push(mk(ops));
            }
        }
        out
    }
    fn size(&self) -> usize {
        self.ops.len()
    }
}

pub fn describe(case: &BigCase) -> serde_json::Value {
    serde_json::json!({
        "world": crate::worlds::WORLD_NAMES[case.world],
        "poison_seed": case.poison,
        "steered": case.steered,
        "ops": case.ops.iter().map(|o| {
            let s = format!("{:?}", o);
            if s.len() > 200 { format!("{}…", &s[..200]) } else { s }
        }).collect::<Vec<_>>(),
    })
}
