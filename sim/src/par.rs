//! Engine A: simulated caller tasks issuing `parse_float` requests through
//! the digit-stream seam, under the seeded scheduler, with the allocator
//! window and the stale-memory seams armed. Serves C16 (purity: iterator
//! shape, call history, schedule), C15 (allocator traffic) and C08 (corrupted
//! bytes under UB monitors).

use crate::alloc::{self, Counts};
use crate::common::{catch, hex, removal_ranges, Shrink, Stats, Violation};
use crate::gen::{self, Input, Mix};
use crate::rng::{Fp, Rng};
use crate::sched::{self, SchedKind, SchedSpec, SchedTrace};
use crate::shape::{self, Kind, Knobs, PairVisitor, ShapeSpec, Store, ALL_KINDS};
use crate::with_world;
use crate::worlds::{self, World, N_WORLDS};
use serde::{Deserialize, Serialize};
use std::collections::BTreeMap;
use std::sync::{Arc, Mutex};

#[derive(Clone, Debug, Serialize, Deserialize, PartialEq, Eq)]
pub enum POp {
    Parse { world: u8, f64: bool, input: usize, si: ShapeSpec, sf: ShapeSpec },
    /// overwrite `kib` KiB of stack below the current frame with `pattern`
    StackPoison { pattern: u64, kib: u32 },
}

#[derive(Clone, Debug, Serialize, Deserialize)]
pub struct ParCase {
    pub property: String,
    pub inputs: Vec<Input>,
    pub tasks: Vec<Vec<POp>>,
    pub sched: SchedSpec,
    pub yield_mode: u8,
    /// poison-stream seed of the reference execution / of the run (None = stream off)
    pub poison_ref: Option<u64>,
    pub poison_run: Option<u64>,
    /// allocator fill (stale heap memory) during the run
    pub fill: Option<u64>,
    pub stack_kib: usize,
    /// library-side scheduling points enabled this run (bit per site) and their period
    #[serde(default)]
    pub lib_mask: u64,
    #[serde(default)]
    pub lib_every: u32,
    /// Miri "hammer" scenario: few literals, many overlapping calls, no coverage accounting
    #[serde(default)]
    pub hammer: bool,
    /// std-thread engine: tasks enter their k-th operations together (sched::gate)
    #[serde(default)]
    pub gate: bool,
    /// compute the reference outcomes after the simulated run instead of before it, so that the
    /// run (not the reference call) is the first use of whatever process-global state exists
    #[serde(default)]
    pub ref_after: bool,
    /// shape of the stale-memory garbage during the run: 0 mixed, 1 all-ones, 2 all-zero
    #[serde(default)]
    pub poison_mode: u8,
}

#[derive(Clone, Debug, PartialEq, Eq, Serialize, Deserialize)]
pub enum Res {
    Bits(u64),
    Panic(String),
}

#[derive(Clone, Debug)]
pub struct Outcome {
    pub res: Res,
    pub counts: Counts,
    /// never-written stack-vector slots that became visible during the call (hook)
    pub exposed: u64,
    pub invoke: u64,
    pub ret: u64,
}

struct ParseVisitor<W: World> {
    f64: bool,
    exp: i32,
    fill: Option<u64>,
    _w: std::marker::PhantomData<W>,
}

impl<W: World> PairVisitor for ParseVisitor<W> {
    type Out = (Res, Counts, u64);
    #[inline(never)]
    fn visit<'a, A, B>(self, a: A, b: B) -> (Res, Counts, u64)
    where
        A: Iterator<Item = &'a u8> + Clone,
        B: Iterator<Item = &'a u8> + Clone,
    {
        let (is64, exp) = (self.f64, self.exp);
        let _ = W::take_exposed_slots();
        alloc::open_window(self.fill);
        let r = catch(move || if is64 { W::parse_f64(a, b, exp) } else { W::parse_f32(a, b, exp) });
        let counts = alloc::close_window();
        let exposed = W::take_exposed_slots();
        (
            match r {
                Ok(bits) => Res::Bits(bits),
                Err(site) => Res::Panic(site),
            },
            counts,
            exposed,
        )
    }
}

/// The plainest possible call: contiguous slices, no world, no yields.
pub fn reference_call(world: u8, is_f64: bool, inp: &Input) -> (Res, Counts) {
    let (r, c, _) = reference_call3(world, is_f64, inp);
    (r, c)
}

fn world_is_lemire(world: usize) -> bool {
    !worlds::WORLD_NAMES[world].contains("compact")
}

fn reference_call3(world: u8, is_f64: bool, inp: &Input) -> (Res, Counts, u64) {
    let si = ShapeSpec::slice();
    let bi = Store::build(&inp.int, &si);
    let bf = Store::build(&inp.frac, &si);
    with_world!(world as usize, W, {
        shape::with_pair(
            Kind::Slice,
            Kind::Slice,
            &bi,
            &bf,
            ParseVisitor::<W> { f64: is_f64, exp: inp.exp, fill: None, _w: std::marker::PhantomData },
        )
    })
}

fn shaped_call(world: u8, is_f64: bool, inp: &Input, si: &ShapeSpec, sf: &ShapeSpec, fill: Option<u64>) -> (Res, Counts, u64) {
    let bi = Store::build(&inp.int, si);
    let bf = Store::build(&inp.frac, sf);
    with_world!(world as usize, W, {
        shape::with_pair(
            si.kind,
            sf.kind,
            &bi,
            &bf,
            ParseVisitor::<W> { f64: is_f64, exp: inp.exp, fill, _w: std::marker::PhantomData },
        )
    })
}

/// Patterns for stale stack memory: bytes that look like digits matter as much as random ones.
pub fn stack_pattern(r: &mut Rng) -> u64 {
    match r.below(8) {
        0 => 0,
        1 => u64::MAX,
        2 => 0x3030_3030_3030_3030, // "00000000"
        3 => 0x3939_3939_3939_3939, // "99999999"
        4 => 0x3130_3130_3130_3130,
        _ => r.next_u64(),
    }
}

#[inline(never)]
pub fn stack_poison(pattern: u64, kib: u32) {
    // 4 KiB of u64 per frame, recursion depth kib/4
    #[inline(never)]
    fn go(pattern: u64, depth: u32) -> u64 {
        let mut buf = [0u64; 512];
        for (i, s) in buf.iter_mut().enumerate() {
            // the structured patterns (zero, all-ones, digit bytes) are written verbatim
            let structured = matches!(
                pattern,
                0 | u64::MAX | 0x3030_3030_3030_3030 | 0x3939_3939_3939_3939 | 0x3130_3130_3130_3130 | 0xCFCF_CFCF_CFCF_CFCF | 0xC6C6_C6C6_C6C6_C6C6 | 0xCECF_CECF_CECF_CECF
            );
            let v = if structured { pattern } else { pattern.rotate_left(i as u32 & 63) | 1 };
            unsafe { std::ptr::write_volatile(s, v) };
        }
        let mut acc = unsafe { std::ptr::read_volatile(&buf[(pattern % 512) as usize]) };
        if depth > 0 {
            acc ^= go(pattern.wrapping_add(0x9E37), depth - 1);
        }
        std::hint::black_box(acc)
    }
    if cfg!(miri) {
        return;
    }
    std::hint::black_box(go(pattern, kib / 4));
}

/// Everything observed in one simulated run.
pub struct RunResult {
    pub outcomes: Vec<Vec<Option<Outcome>>>,
    pub trace: SchedTrace,
}

/// Execute the tasks of `case` under `spec`.
pub fn execute(case: &ParCase, spec: &SchedSpec, yield_mode: u8) -> RunResult {
    let ntasks = case.tasks.len();
    let out: Arc<Mutex<Vec<Vec<Option<Outcome>>>>> =
        Arc::new(Mutex::new(case.tasks.iter().map(|t| vec![None; t.len()]).collect()));
    let shared = Arc::new(case.clone());
    let out2 = out.clone();
    worlds::set_poison_all(case.poison_run);
    worlds::set_poison_mode_all(case.poison_mode);
    if yield_mode == sched::YIELD_NONE && matches!(spec.kind, SchedKind::Sequential) && case.tasks.len() > 1 {
        sched::set_lib_sites(0, 1); // the sequential re-run
    } else {
        sched::set_lib_sites(case.lib_mask, case.lib_every);
    }
    let gated = case.gate && ntasks > 1;
    sched::set_gate(if gated { ntasks } else { 0 });
    let body = Arc::new(move |t: usize| {
        let case = &shared;
        for (k, op) in case.tasks[t].iter().enumerate() {
            if gated {
                sched::gate();
            }
            match op {
                POp::StackPoison { pattern, kib } => {
                    stack_poison(*pattern, (*kib).min(case.stack_kib as u32 / 2));
                },
                POp::Parse { world, f64, input, si, sf } => {
                    sched::log_event(sched::OP_CALL_BEGIN, k as u64);
                    let invoke = sched::step();
                    let (res, counts, exposed) = shaped_call(*world, *f64, &case.inputs[*input], si, sf, case.fill);
                    let ret = sched::step();
                    sched::log_event(sched::OP_CALL_END, k as u64);
                    out2.lock().unwrap()[t][k] = Some(Outcome { res, counts, exposed, invoke, ret });
                    // a switch point between calls
                    sched::force_yield();
                },
            }
        }
        if gated {
            sched::leave_gate();
        }
    });
    let trace = sched::run_world(spec, ntasks, yield_mode, case.stack_kib, body);
    sched::set_gate(0);
    sched::set_lib_sites(0, 1);
    worlds::set_poison_all(None);
    worlds::set_poison_mode_all(0);
    let outcomes = out.lock().unwrap().clone();
    RunResult { outcomes, trace }
}

#[derive(Default, Clone, Debug)]
pub struct ParInfo {
    pub calls: u64,
    pub trace_fp: u64,
    pub digest: u64,
    pub steps: u64,
    pub switches: u64,
}

fn describe_call(case: &ParCase, t: usize, k: usize) -> String {
    if let POp::Parse { world, f64, input, si, sf } = &case.tasks[t][k] {
        let i = &case.inputs[*input];
        format!(
            "task {} op {}: {}::parse_float::<{}> int={} ({} B, {:?}) frac={} ({} B, {:?}) exp={} [{}]",
            t,
            k,
            worlds::WORLD_NAMES[*world as usize],
            if *f64 { "f64" } else { "f32" },
            short_hex(&i.int),
            i.int.len(),
            si.kind,
            short_hex(&i.frac),
            i.frac.len(),
            sf.kind,
            i.exp,
            i.family
        )
    } else {
        String::new()
    }
}

fn short_hex(b: &[u8]) -> String {
    if b.len() <= 24 {
        hex(b)
    } else {
        format!("{}…{}", hex(&b[..12]), hex(&b[b.len() - 8..]))
    }
}

/// Run one case and judge it by the oracle of its property.
pub fn run_case(case: &ParCase, stats: &mut Stats, miri: bool) -> Result<ParInfo, Violation> {
    let prop = case.property.as_str();
    let mut info = ParInfo::default();

    // --- reference outcomes: plain slices, one task, no world, poison P_ref ---
    let mut refs: BTreeMap<(u8, bool, usize), (Res, Counts)> = BTreeMap::new();
    let compute_refs = |refs: &mut BTreeMap<(u8, bool, usize), (Res, Counts)>| {
        if prop != "C08" {
            worlds::set_poison_all(case.poison_ref);
            for t in &case.tasks {
                for op in t {
                    if let POp::Parse { world, f64, input, .. } = op {
                        refs.entry((*world, *f64, *input))
                            .or_insert_with(|| reference_call(*world, *f64, &case.inputs[*input]));
                    }
                }
            }
            worlds::set_poison_all(None);
        }
    };
    if !case.ref_after {
        compute_refs(&mut refs);
    }

    // --- the run ---
    let run = execute(case, &case.sched, case.yield_mode);
    if case.ref_after {
        compute_refs(&mut refs);
        stats.inc("reach.reference_computed_after_the_run");
    }
    info.steps = run.trace.steps;
    info.switches = run.trace.switches;
    info.trace_fp = run.trace.event_fp;
    stats.inc(match &case.sched.kind {
        SchedKind::Random => "sched.kind.random",
        SchedKind::Pct { .. } => "sched.kind.pct",
        SchedKind::Burst { .. } => "sched.kind.burst",
        SchedKind::Sequential => "sched.kind.sequential",
        SchedKind::Rendezvous { .. } => "sched.kind.rendezvous",
        SchedKind::Replay { .. } => "sched.kind.replay",
    });
    stats.add("sched.steps", run.trace.steps);
    stats.add("sched.decisions", run.trace.decisions.len() as u64);
    stats.add("sched.switches", run.trace.switches);
    stats.add("seam.events", run.trace.events);
    let (lib_hits, lib_yields) = sched::take_lib_counters();
    stats.add("sched.library_site_hits", lib_hits);
    stats.add("sched.library_site_yields", lib_yields);

    let mut dg = Fp::new();
    dg.push(run.trace.event_fp);
    for &d in &run.trace.decisions {
        dg.push(d as u64);
    }

    let mut deep_tasks_per_world = [0u32; N_WORLDS];
    for (t, ops) in case.tasks.iter().enumerate() {
        let mut prev_slow_on_task = false;
        let mut deep_worlds_this_task = [false; N_WORLDS];
        for (k, op) in ops.iter().enumerate() {
            let (world, is64, input, si, sf) = match op {
                POp::Parse { world, f64, input, si, sf } => (*world, *f64, *input, si, sf),
                POp::StackPoison { .. } => {
                    stats.inc("fault.stack_poison_op");
                    continue;
                },
            };
            let o = match &run.outcomes[t][k] {
                Some(o) => o,
                None => return Err(Violation::new(format!("{}/harness", prop), "call did not complete".to_string())),
            };
            info.calls += 1;
            match &o.res {
                Res::Bits(b) => dg.push(*b),
                Res::Panic(s) => dg.push_bytes(s.as_bytes()),
            }
            dg.push(o.counts.total());
            dg.push(o.invoke);
            dg.push(o.ret);
            let inp = &case.inputs[input];
            let preempted = o.ret > o.invoke && case.tasks.len() > 1;

            // coverage accounting (never part of a verdict)
            let tier = if case.hammer {
                stats.inc("reach.hammer_calls");
                if inp.family.starts_with("hammer_deep") {
                    stats.inc("reach.hammer_deep_calls_two_large_powers_of_five");
                }
                None
            } else if prop == "C08" {
                // tier accounting on corrupted bytes may itself panic (cleanly); it doubles the
                // work, so the Miri engine (where every instruction is expensive) goes without
                let t = if miri {
                    None
                } else {
                    catch(|| with_world!(world as usize, W, W::tier(is64, &inp.int, &inp.frac, inp.exp))).ok()
                };
                let mut f = Fp::new();
                f.push(world as u64);
                f.push(is64 as u64);
                f.push(si.kind as u64);
                match &o.res {
                    Res::Bits(_) => f.push(1),
                    Res::Panic(site) => f.push_bytes(site.as_bytes()),
                }
                match t {
                    Some(t) => {
                        f.push(t as u64);
                        stats.inc(&format!("tier_after_corruption.{}", worlds::TIER_NAMES[t as usize]));
                    },
                    None => {
                        f.push(99);
                        stats.inc("tier_after_corruption.accounting_panicked");
                    },
                }
                stats.distinct.insert(f.finish());
                for c in inp.family.split(|ch| ch == '[' || ch == ',' || ch == ']') {
                    if let Some(k) = c.split('(').next() {
                        if c.contains('(') {
                            stats.inc(&format!("fault.corruption.{}", k));
                        }
                    }
                }
                if inp.family == "garbage" {
                    stats.inc("fault.corruption.pure_garbage");
                }
                if inp.family == "degenerate" {
                    stats.inc("fault.corruption.degenerate_string");
                }
                None
            } else {
                Some(with_world!(world as usize, W, W::tier(is64, &inp.int, &inp.frac, inp.exp)))
            };
            if let Some(tier) = tier {
                stats.inc(&format!("tier.{}.{}", worlds::WORLD_NAMES[world as usize], worlds::TIER_NAMES[tier as usize]));
                stats.inc(&format!("shape.{}.{}", shape::KIND_NAMES[si.kind as usize], shape::KIND_NAMES[sf.kind as usize]));
                stats.inc(&format!(
                    "cell.{}x{}",
                    shape::KIND_NAMES[si.kind as usize].min(shape::KIND_NAMES[sf.kind as usize]),
                    worlds::TIER_NAMES[tier as usize]
                ));
                if inp.family.starts_with("lemire_inconclusive") {
                    // the request set was solved from the table (tools/lemire_rare.py): every one of them
                    // makes the low product word all ones in non-compact builds
                    stats.inc(if world_is_lemire(world as usize) {
                        "reach.lemire_low_product_word_all_ones"
                    } else {
                        "reach.lemire_inconclusive_request_in_a_bellerophon_build"
                    });
                }
                if inp.family.starts_with("limb_boundary") || inp.family.starts_with("structured") {
                    let fam = inp.family.split('+').next().unwrap_or("");
                    stats.inc(&format!("family.{}.{}", fam, worlds::TIER_NAMES[tier as usize]));
                }
                if tier.is_slow() && !miri {
                    let ex = with_world!(world as usize, W, W::slow_exponent(is64, &inp.int, &inp.frac, inp.exp));
                    let mag = ex.unsigned_abs();
                    stats.inc(match mag {
                        0..=26 => "reach.slow_pow5_exponent_0_26",
                        27..=134 => "reach.slow_pow5_exponent_27_134",
                        135..=269 => "reach.slow_pow5_exponent_135_269",
                        270..=1079 => "reach.slow_pow5_exponent_270_1079",
                        _ => "reach.slow_pow5_exponent_1080_up",
                    });
                    if mag >= 1080 {
                        deep_worlds_this_task[world as usize] = true;
                    }
                }
                if preempted {
                    stats.inc("reach.call_preempted");
                    if tier.is_slow() {
                        stats.inc("reach.slow_call_preempted");
                    }
                }
                if prev_slow_on_task && tier.is_slow() {
                    stats.inc("reach.slow_call_after_slow_call_same_task");
                }
                if si.knobs.relocate && (si.kind == Kind::Sim || sf.kind == Kind::Sim) && tier.is_slow() {
                    stats.inc("reach.slow_call_each_pass_on_a_different_copy");
                }
                prev_slow_on_task = tier.is_slow();
                let nontrivial = preempted || case.poison_run.is_some() || case.fill.is_some();
                if nontrivial {
                    let mut f = Fp::new();
                    f.push(tier as u64);
                    f.push(si.kind as u64);
                    f.push(sf.kind as u64);
                    f.push((case.tasks.len() > 1) as u64);
                    f.push(preempted as u64);
                    f.push(world as u64);
                    f.push(is64 as u64);
                    stats.distinct.insert(f.finish());
                }
            }
            if let Res::Panic(site) = &o.res {
                stats.inc("outcome.panic");
                stats.notes.insert(format!("panic at {}", site));
            } else {
                stats.inc("outcome.value");
            }

            match prop {
                "C16" => {
                    let (rres, _) = &refs[&(world, is64, input)];
                    if &o.res != rres {
                        return Err(Violation::new(
                            "C16/O1",
                            format!(
                                "{} returned {:x?}, reference call on plain slices returned {:x?}{}",
                                describe_call(case, t, k),
                                o.res,
                                rres,
                                if case.tasks.len() > 1 && preempted { " (call was pre-empted)" } else { "" }
                            ),
                        ));
                    }
                    if let Res::Panic(site) = &o.res {
                        stats.notes.insert(format!("NOTE valid request panics identically in the reference execution at {}", site));
                    }
                },
                "C15" => {
                    let is_alloc_world = world == 2 || world == 3;
                    if !is_alloc_world {
                        if o.counts.total() != 0 {
                            return Err(Violation::new(
                                "C15/allocation-without-alloc-feature",
                                format!(
                                    "{}: {} alloc, {} realloc, {} free ({} bytes) inside the window",
                                    describe_call(case, t, k),
                                    o.counts.allocs,
                                    o.counts.reallocs,
                                    o.counts.frees,
                                    o.counts.bytes
                                ),
                            ));
                        }
                        stats.inc("alloc.checked_requests_without_alloc_feature");
                        if tier.map(|t| t.is_slow()).unwrap_or(false) {
                            stats.inc("alloc.checked_slow_requests_without_alloc_feature");
                        }
                    } else {
                        stats.add("alloc.control_allocations", o.counts.allocs);
                        if tier.map(|t| t.is_slow()).unwrap_or(false) {
                            stats.inc("alloc.control_slow_requests");
                            if o.counts.allocs == 0 {
                                stats.inc("alloc.control_slow_requests_with_zero_allocations");
                            }
                        }
                    }
                    // the same request must also not allocate in the reference call
                    let (_, rc) = &refs[&(world, is64, input)];
                    if !is_alloc_world && rc.total() != 0 {
                        return Err(Violation::new(
                            "C15/allocation-without-alloc-feature",
                            format!("{} (reference call on plain slices): {} allocator calls", describe_call(case, t, k), rc.total()),
                        ));
                    }
                },
                _ => {
                    if o.exposed > 0 && case.tasks.len() == 1 {
                        // (hook) a slot of the stack vector that was never written became part of the
                        // visible slice: in the shipped build those limbs are uninitialised memory
                        return Err(Violation::new(
                            "C08/never-written-slot-visible",
                            format!("{}: {} observation(s) of a visible big-integer limb that still holds the garbage it was created with", describe_call(case, t, k), o.exposed),
                        ));
                    }
                    // C08: value or unwinding panic are both fine; the monitors
                    // (ASan, ub-checks, Miri) abort the process on a violation.
                    if let Res::Panic(site) = &o.res {
                        stats.inc(&format!("panic_site.{}", site));
                    }
                },
            }
        }
        for w in 0..N_WORLDS {
            if deep_worlds_this_task[w] {
                deep_tasks_per_world[w] += 1;
            }
        }
    }

    for w in 0..N_WORLDS {
        if deep_tasks_per_world[w] >= 2 {
            stats.inc("reach.two_tasks_need_pow5_1080_up_in_one_configuration");
        }
    }
    // --- C08 (native): the same corrupted bytes over different stale memory ---
    // A call whose outcome changes with the contents of never-written backing
    // slots has read them: in the shipped build that is a read of uninitialised
    // memory. (Miri reports such a read directly; this is the native counterpart.)
    if prop == "C08" && !miri && case.poison_run.is_some() {
        let mut again = case.clone();
        again.poison_run = case.poison_run.map(|p| p.rotate_left(17) ^ 0xA5A5_5A5A_0F0F_F0F1);
        again.fill = case.fill.map(|f| f.rotate_left(29) ^ 0x0F0F_F0F0_A5A5_5A5B);
        // other stale stack contents as well
        for ops in again.tasks.iter_mut() {
            for op in ops.iter_mut() {
                if let POp::StackPoison { pattern, .. } = op {
                    *pattern = match *pattern {
                        0x3030_3030_3030_3030 => u64::MAX,
                        0 => 0x3030_3030_3030_3030,
                        p => !p,
                    };
                }
            }
        }
        // and a differently *shaped* garbage: all-ones / all-zero / mixed
        again.poison_mode = match case.poison_mode {
            0 => 1 + (case.poison_run.unwrap_or(0) >> 7 & 1) as u8,
            _ => 0,
        };
        let second = execute(&again, &again.sched, again.yield_mode);
        stats.inc("reach.c08_second_execution_over_different_stale_memory");
        for (t, ops) in case.tasks.iter().enumerate() {
            for (k, _) in ops.iter().enumerate() {
                if let (Some(a), Some(b)) = (&run.outcomes[t][k], &second.outcomes[t][k]) {
                    if a.res != b.res {
                        return Err(Violation::new(
                            "C08/outcome-depends-on-uninitialised-memory",
                            format!(
                                "{}: {:x?} with one content of the never-written backing slots, {:x?} with another",
                                describe_call(case, t, k),
                                a.res,
                                b.res
                            ),
                        ));
                    }
                }
            }
        }
    }

    // --- O2: the concurrent history against the sequential history of the same calls ---
    if prop == "C16" && case.tasks.len() > 1 && !miri {
        let seq_spec = SchedSpec { kind: SchedKind::Sequential, seed: 0 };
        let seq = execute(case, &seq_spec, sched::YIELD_NONE);
        stats.inc("history.sequential_reruns");
        for (t, ops) in case.tasks.iter().enumerate() {
            for (k, _) in ops.iter().enumerate() {
                if let (Some(a), Some(b)) = (&run.outcomes[t][k], &seq.outcomes[t][k]) {
                    if a.res != b.res {
                        return Err(Violation::new(
                            "C16/O2-concurrent-vs-sequential",
                            format!("{}: concurrent run returned {:x?}, sequential run returned {:x?}", describe_call(case, t, k), a.res, b.res),
                        ));
                    }
                }
            }
        }
    }
    info.digest = dg.finish();
    Ok(info)
}

// ---------------------------------------------------------------------------
// generation
// ---------------------------------------------------------------------------

pub struct GenCfg {
    pub property: &'static str,
    pub miri: bool,
    pub thorough: bool,
}

fn draw_shape_pair(r: &mut Rng, li: usize, lf: usize, sim_only: bool) -> (ShapeSpec, ShapeSpec) {
    let pick_kind = |r: &mut Rng| -> Kind {
        if sim_only {
            *r.pick(&[Kind::Slice, Kind::Sim, Kind::Sim, Kind::ChainSim])
        } else {
            match r.below(10) {
                0 => Kind::Slice,
                1 | 2 | 3 => Kind::Sim,
                _ => *r.pick(&ALL_KINDS),
            }
        }
    };
    let ki = pick_kind(r);
    let kf = match r.below(4) {
        0 => ki,
        1 => Kind::Slice,
        2 => Kind::Sim,
        _ => pick_kind(r),
    };
    let (ki, kf) = if shape::pair_allowed(ki, kf) { (ki, kf) } else { (ki, ki) };
    (ShapeSpec::draw(r, ki, li), ShapeSpec::draw(r, kf, lf))
}

/// Engine B scenario for unsynchronised shared state: 2-3 real threads hammer the
/// same two short big-integer-tier literals through plain slices in one configuration.
/// *Deep* variant (half of the cases): f64 literals of 20-40 digits cut from the midpoint
/// expansions of two floats of very large or very small magnitude, so that the two requests
/// need two different powers of five >= 5^135 (long multiplication, large-power caches).
fn gen_hammer_case(seed: u64, cfg: &GenCfg) -> ParCase {
    let mut r = Rng::new(seed ^ 0x4A33);
    let mut inputs: Vec<Input> = Vec::new();
    let deep = r.chance(1, 2);
    if deep {
        let big = r.chance(1, 2);
        let mut first_ef: Option<u64> = None;
        let kdigits = 20 + r.usize_below(21);
        while inputs.len() < 2 {
            // the second request sits a few binades from the first: a different power of five, nearly the
            // same amount of work - threads that start together reach the same library sites together
            let ef = match first_ef {
                Some(f) => (f as i64 + *r.pick(&[-9i64, -7, -4, 4, 7, 9])).clamp(1, 0x7FE) as u64,
                None => {
                    if big {
                        0x7F0 - r.below(480)
                    } else {
                        16 + r.below(480)
                    }
                },
            };
            first_ef = Some(ef);
            let bits = (ef << 52) | (gen::draw_float_bits(&mut r, true) & ((1u64 << 52) - 1));
            let (m, e) = gen::decompose(bits, true);
            let base = gen::halfway_decimal(m, e);
            let k = kdigits.min(base.digits.len());
            let mut digits = base.digits[..k].to_vec();
            let cut = base.digits.len() - k;
            if cut > 0 && r.chance(1, 2) {
                // the cut-off expansion lies just below the midpoint; one more in the last place lies just above
                let mut i = k;
                while i > 0 {
                    i -= 1;
                    if digits[i] == b'9' {
                        digits[i] = b'0';
                    } else {
                        digits[i] += 1;
                        break;
                    }
                }
            }
            let d = gen::Dec { digits, dec_exp: base.dec_exp + cut as i64 };
            let i = if r.chance(1, 2) { gen::split_at(&d, usize::MAX, 0, "hammer_deep_f64") } else { gen::split(&d, &mut r, "hammer_deep_f64") };
            if gen::is_valid(&i) && !inputs.contains(&i) {
                inputs.push(i);
            }
        }
    }
    let mut tries = 0;
    while inputs.len() < 2 && tries < 200 {
        tries += 1;
        let i = gen::draw_input(&mut r, Mix::Short, false, false);
        if i.family.starts_with("halfway") && i.family.ends_with("f32") && i.digits() > 19 && i.digits() <= 70 && !inputs.contains(&i) {
            inputs.push(i);
        }
    }
    while inputs.len() < 2 {
        inputs.push(gen::draw_input(&mut r, Mix::Short, false, false));
    }
    let world = r.below(N_WORLDS as u64) as u8;
    let ntasks = 2 + r.usize_below(2);
    let mut tasks = Vec::new();
    let n_deep = 4 + r.usize_below(3);
    for t in 0..ntasks {
        let n = if deep { n_deep } else { 4 + r.usize_below(3) };
        let mut ops = Vec::new();
        for k in 0..n {
            let input = match (t % 3, deep) {
                (0, _) => k % 2,
                (1, false) | (2, true) => 0,
                _ => (k + 1) % 2,
            };
            ops.push(POp::Parse { world, f64: deep, input, si: ShapeSpec::slice(), sf: ShapeSpec::slice() });
        }
        tasks.push(ops);
    }
    ParCase {
        property: cfg.property.to_string(),
        inputs,
        tasks,
        sched: SchedSpec { kind: SchedKind::Random, seed: r.next_u64() },
        yield_mode: sched::YIELD_NONE,
        poison_ref: None,
        poison_run: None,
        fill: None,
        stack_kib: 512,
        lib_mask: if deep { u64::MAX } else if r.chance(1, 2) { 0 } else { r.next_u64() },
        lib_every: *r.pick(&[1u32, 3, 7]),
        hammer: true,
        gate: deep,
        ref_after: r.chance(1, 2),
        poison_mode: 0,
    }
}

/// Long call histories on one thread: `k` calls with one request, then a different one,
/// twice over — for state that only misbehaves after a particular *number* of preceding
/// calls (counters, pacing heuristics, periodically refreshed scratch).
fn gen_marathon_case(seed: u64, cfg: &GenCfg) -> ParCase {
    let mut r = Rng::new(seed ^ 0x3A7A);
    // A: a long request the middle stage decides; B: a near-halfway one for the big-integer tier
    let mut a = gen::draw_input(&mut r, Mix::Balanced, true, false);
    for _ in 0..50 {
        if a.family.starts_with("long") || a.family.starts_with("moderate") || a.family.starts_with("fast") {
            break;
        }
        a = gen::draw_input(&mut r, Mix::Balanced, true, false);
    }
    let mut b = gen::draw_input(&mut r, Mix::Balanced, true, false);
    for _ in 0..50 {
        if b.family.starts_with("halfway") && b.digits() > 19 && b.digits() < 400 {
            break;
        }
        b = gen::draw_input(&mut r, Mix::Balanced, true, false);
    }
    let is64 = !b.family.ends_with("f32");
    let world = *r.pick(&[0u8, 0, 1, 2, 3, 4]);
    let sl = ShapeSpec::slice;
    let mut ops = Vec::new();
    for _ in 0..2 {
        let k = 1 + r.usize_below(130);
        for _ in 0..k {
            ops.push(POp::Parse { world, f64: is64, input: 0, si: sl(), sf: sl() });
        }
        ops.push(POp::Parse { world, f64: is64, input: 1, si: sl(), sf: sl() });
    }
    ParCase {
        property: cfg.property.to_string(),
        inputs: vec![a, b],
        tasks: vec![ops],
        sched: SchedSpec { kind: SchedKind::Sequential, seed: 0 },
        yield_mode: sched::YIELD_NONE,
        poison_ref: Some(0x5EED_0001),
        poison_run: Some(r.next_u64() | 2),
        fill: None,
        stack_kib: 512,
        lib_mask: 0,
        lib_every: 1,
        hammer: false,
        gate: false,
        ref_after: r.chance(1, 2),
        poison_mode: 0,
    }
}

pub fn gen_case(seed: u64, cfg: &GenCfg) -> ParCase {
    let mut r = Rng::new(seed);
    let prop = cfg.property;
    if !cfg.miri && prop == "C16" && r.chance(1, 48) {
        return gen_marathon_case(seed, cfg);
    }
    if cfg.miri && prop == "C16" && r.chance(1, 2) {
        return gen_hammer_case(seed, cfg);
    }
    let ntasks = if cfg.miri {
        *r.pick(&[1usize, 2, 2, 3])
    } else {
        match prop {
            "C16" => *r.pick(&[1usize, 1, 2, 2, 3, 4]),
            "C15" => *r.pick(&[1usize, 1, 1, 2, 3]),
            _ => 1,
        }
    };
    let mix = if cfg.miri {
        Mix::Short
    } else if prop == "C15" {
        Mix::AllocHeavy
    } else {
        Mix::Balanced
    };
    // inputs: a few bases plus related variants
    let nbase = 1 + r.usize_below(3);
    let mut inputs: Vec<Input> = Vec::new();
    for _ in 0..nbase {
        let hint64 = r.chance(1, 2);
        let b = gen::draw_input(&mut r, mix, hint64, cfg.thorough && !cfg.miri);
        let nrel = r.usize_below(3);
        for _ in 0..nrel {
            let v = gen::related(&b, &mut r);
            inputs.push(v);
        }
        inputs.push(b);
    }
    for i in &inputs {
        assert!(gen::is_valid(i), "generator produced an invalid request: {:?}", i.family);
    }
    let maxdig = inputs.iter().map(|i| i.digits()).max().unwrap_or(0);
    // yield density bounded by the work: keep scheduler steps per run bounded
    let yield_mode = if ntasks == 1 {
        *r.pick(&[sched::YIELD_KEY, sched::YIELD_NONE, sched::YIELD_ONE_IN_8])
    } else if maxdig > 4000 {
        sched::YIELD_KEY
    } else if maxdig > 600 {
        *r.pick(&[sched::YIELD_KEY, sched::YIELD_ONE_IN_8])
    } else {
        *r.pick(&[sched::YIELD_EVERY, sched::YIELD_EVERY, sched::YIELD_ONE_IN_8, sched::YIELD_KEY])
    };
    let max_ops = if cfg.miri { 2 } else { 6 };
    let worlds_under_test: &[u8] = match prop {
        // control worlds (alloc) ride along as the positive control
        "C15" => &[0, 0, 1, 1, 4, 4, 2, 3],
        _ => &[0, 1, 2, 3, 4],
    };
    // "sticky" runs: every task keeps hammering one or two related requests, so that
    // state shared between callers (caches, scratch buffers) is hit while it is being rewritten
    let sticky = ntasks > 1 && r.chance(1, 2);
    // process-global state of a configuration is shared only by callers of that
    // configuration: sticky runs mostly stay in one
    let run_world = *r.pick(worlds_under_test);
    let mut tasks = Vec::new();
    for _ in 0..ntasks {
        let nops = if sticky { 2 + r.usize_below(max_ops.max(3) - 1) } else { 1 + r.usize_below(max_ops) };
        let mut ops = Vec::new();
        let pinned_a = r.usize_below(inputs.len());
        let pinned_b = r.usize_below(inputs.len());
        let pinned_world = if r.chance(4, 5) { run_world } else { *r.pick(worlds_under_test) };
        for _ in 0..nops {
            if !cfg.miri && r.chance(1, 6) {
                ops.push(POp::StackPoison { pattern: stack_pattern(&mut r), kib: *r.pick(&[16u32, 32, 64, 128]) });
                continue;
            }
            let input = if sticky {
                if r.chance(3, 4) {
                    pinned_a
                } else {
                    pinned_b
                }
            } else {
                r.usize_below(inputs.len())
            };
            let inp = &inputs[input];
            let is64 = if sticky && !inp.family.contains("f32") {
                true
            } else if inp.family.ends_with("f32") {
                r.chance(1, 6)
            } else if inp.family.ends_with("f64") {
                !r.chance(1, 6)
            } else {
                r.chance(1, 2)
            };
            // very long inputs: keep to cheap shapes
            let (si, sf) = draw_shape_pair(&mut r, inp.int.len(), inp.frac.len(), false);
            let world = if sticky && r.chance(3, 4) { pinned_world } else { *r.pick(worlds_under_test) };
            ops.push(POp::Parse { world, f64: is64, input, si, sf });
        }
        tasks.push(ops);
    }
    let horizon = (maxdig as u32 * 3 * ntasks as u32).clamp(16, 20_000);
    let kind = if ntasks == 1 {
        SchedKind::Sequential
    } else if sticky && r.chance(1, 2) {
        // align the callers at one library site (between parser stages, or at a big-integer primitive)
        SchedKind::Rendezvous {
            site: *r.pick(&[21u8, 21, 22, 22, 27, 28, 14, 15, 13, 11, 12, 17, 24, 25, 26, 23]),
            burst: *r.pick(&[16u16, 64, 256, 1024]),
        }
    } else {
        match r.below(6) {
            0 | 1 => SchedKind::Random,
            2 => SchedKind::Pct { depth: 1 + r.below(3) as u8, horizon },
            3 => SchedKind::Pct { depth: 2 + r.below(4) as u8, horizon: horizon / 4 + 1 },
            _ => SchedKind::Burst { mean: *r.pick(&[2u16, 4, 16, 64, 256]) },
        }
    };
    with_rendezvous_site_enabled(ParCase {
        property: prop.to_string(),
        inputs,
        tasks,
        sched: SchedSpec { kind, seed: r.next_u64() },
        yield_mode,
        poison_ref: if cfg.miri { None } else { Some(0x5EED_0001) },
        poison_run: if cfg.miri { None } else { Some(r.next_u64() | 2) },
        fill: if cfg.miri || r.chance(1, 4) { None } else { Some(r.next_u64() | 1) },
        stack_kib: 512,
        lib_mask: if ntasks == 1 {
            0
        } else {
            match r.below(4) {
                0 => 0,
                1 => u64::MAX,
                _ => r.next_u64() & r.next_u64() | (1 << (r.below(30) + 1)),
            }
        },
        lib_every: *r.pick(&[1u32, 1, 2, 5, 16]),
        hammer: false,
        gate: false,
        ref_after: r.chance(1, 2),
        poison_mode: if cfg.miri { 0 } else { *r.pick(&[0u8, 0, 0, 0, 1, 2]) },
    })
}

/// (kept separate for clarity) the rendezvous site must be an enabled library site
fn with_rendezvous_site_enabled(mut c: ParCase) -> ParCase {
    if let SchedKind::Rendezvous { site, .. } = &c.sched.kind {
        c.lib_mask |= 1u64 << (*site as u64 & 63);
    }
    c
}

// ---------------------------------------------------------------------------
// C08: corruption of an otherwise valid request at the seam
// ---------------------------------------------------------------------------

pub fn corrupt(inp: &Input, r: &mut Rng, log: &mut Vec<String>) -> Input {
    let mut i = inp.clone();
    let n = 1 + r.usize_below(6);
    for _ in 0..n {
        let which_frac = if i.int.is_empty() { true } else if i.frac.is_empty() { false } else { r.chance(1, 2) };
        let total_before = if which_frac { i.int.len() } else { 0 };
        let buf = if which_frac { &mut i.frac } else { &mut i.int };
        let len = buf.len();
        // position biased to where in-flight state exists
        let pos = |r: &mut Rng, len: usize| -> usize {
            if len == 0 {
                return 0;
            }
            let want = match r.below(8) {
                0 => 18usize,
                1 => 19,
                2 => 20,
                3 => 19 * (1 + r.usize_below(40)),
                4 => *r.pick(&[113usize, 114, 768, 769, 770]),
                5 => len + total_before - 1,
                _ => total_before + r.usize_below(len),
            };
            want.saturating_sub(total_before).min(len - 1)
        };
        match r.below(10) {
            0 => {
                if len > 0 {
                    let p = pos(r, len);
                    let bit = r.below(8);
                    buf[p] ^= 1 << bit;
                    log.push(format!("bitflip({},{},bit{})", if which_frac { "frac" } else { "int" }, p, bit));
                }
            },
            1 | 2 => {
                if len > 0 {
                    let p = pos(r, len);
                    let v = match r.below(5) {
                        0 => 0xFF,
                        1 => 0x00,
                        2 => b'0' - 1,
                        3 => b'9' + 1,
                        _ => r.below(256) as u8,
                    };
                    buf[p] = v;
                    log.push(format!("subst({},{},{:#x})", if which_frac { "frac" } else { "int" }, p, v));
                }
            },
            3 | 4 => {
                // 0xFF run ("digit" 207: fastest growth of the big integer)
                let p = if len == 0 { 0 } else { pos(r, len) };
                let lmax = if r.chance(1, 4) { 900 } else { 60 };
                let l = 1 + r.usize_below(lmax);
                let v = if r.chance(3, 4) { 0xFF } else { r.below(256) as u8 };
                let run: Vec<u8> = std::iter::repeat(v).take(l).collect();
                let tail = buf.split_off(p.min(buf.len()));
                buf.extend_from_slice(&run);
                if r.chance(1, 2) {
                    buf.extend_from_slice(&tail);
                }
                log.push(format!("run({},{},{:#x}x{})", if which_frac { "frac" } else { "int" }, p, v, l));
            },
            5 => {
                if len > 0 {
                    let p = pos(r, len);
                    let c = buf[p];
                    buf.insert(p, c);
                    log.push(format!("dup({},{})", if which_frac { "frac" } else { "int" }, p));
                }
            },
            6 => {
                if len > 0 {
                    let p = pos(r, len);
                    buf.truncate(p);
                    log.push(format!("truncate({},{})", if which_frac { "frac" } else { "int" }, p));
                }
            },
            7 => {
                let z = 1 + r.usize_below(60);
                let mut v = vec![b'0'; z];
                v.extend_from_slice(&i.int);
                i.int = v;
                log.push(format!("leading_zeros(int,{})", z));
            },
            8 => {
                let z = 1 + r.usize_below(60);
                i.frac.extend(std::iter::repeat(b'0').take(z));
                log.push(format!("trailing_zeros(frac,{})", z));
            },
            _ => {
                i.exp = *r.pick(&[i32::MIN, i32::MAX, i32::MIN + 1, i32::MAX - 1, 1, -1, 0, 308, -324, 4000, -4000]);
                log.push(format!("exp({})", i.exp));
            },
        }
        if i.int.len() + i.frac.len() > 10_000 {
            i.frac.truncate(10_000usize.saturating_sub(i.int.len()));
            i.int.truncate(10_000);
        }
    }
    i.family = format!("{} corrupted[{}]", inp.family, log.join(","));
    i
}

pub fn gen_case_c08(seed: u64, cfg: &GenCfg) -> ParCase {
    let mut r = Rng::new(seed);
    let mix = if cfg.miri { Mix::Short } else { Mix::Balanced };
    let mut inputs = Vec::new();
    let mut ops = Vec::new();
    let n = if cfg.miri { 1 } else { 1 + r.usize_below(3) };
    for k in 0..n {
        let inp = if r.chance(1, if cfg.miri { 4 } else { 10 }) {
            // degenerate strings: the precondition violations the statement names ("leading or
            // trailing zeros, any lengths") in their purest form
            let part = |r: &mut Rng| -> Vec<u8> {
                let n = *r.pick(&[0usize, 1, 2, 8, 18, 19, 20, 21, 27, 38, 39, 113, 114, 115, 768, 769, 770]);
                match r.below(8) {
                    0 => Vec::new(),
                    1 | 2 => vec![b'0'; n],
                    3 => vec![b'9'; n],
                    4 => vec![0xFF; n],
                    5 => vec![*r.pick(&[0x00u8, b'/', b':', 0x80, b' ']); n],
                    6 => {
                        let mut v = vec![b'0'; n];
                        v.push(b'1');
                        v
                    },
                    _ => {
                        let mut v = vec![b'1'];
                        v.extend(std::iter::repeat(b'0').take(n));
                        v
                    },
                }
            };
            let (int, frac) = (part(&mut r), part(&mut r));
            Input {
                int,
                frac,
                exp: *r.pick(&[0, 0, 1, -1, 19, -19, 20, -20, 308, -308, -324, -342, -343, 309, 400, -400, i32::MAX, i32::MIN, i32::MIN + 1, i32::MAX - 1]),
                family: "degenerate".into(),
            }
        } else if r.chance(1, 8) {
            // pure garbage
            let mi = if r.chance(1, 10) { 3000 } else { 40 };
            let li = r.usize_below(mi);
            let mf = if r.chance(1, 10) { 3000 } else { 40 };
            let lf = r.usize_below(mf);
            Input {
                int: (0..li).map(|_| r.below(256) as u8).collect(),
                frac: (0..lf).map(|_| r.below(256) as u8).collect(),
                exp: match r.below(3) {
                    0 => r.range(-400, 400) as i32,
                    1 => r.next_u64() as i32,
                    _ => *r.pick(&[i32::MIN, i32::MAX, 0]),
                },
                family: "garbage".into(),
            }
        } else {
            let hint64 = r.chance(1, 2);
            // (expensive under Miri: a tenth of the quick budget, a fifth of the thorough one)
            let deep = r.chance(1, if cfg.miri { if cfg.thorough { 5 } else { 10 } } else { 40 });
            let base = if deep {
                // a valid request that drives the rarest big-integer paths (long multiplication
                // with runs of zero limbs): the small Miri budget should not be left to chance
                gen::limb_boundary_deep(&mut r)
            } else {
                gen::draw_input(&mut r, mix, hint64, cfg.thorough && !cfg.miri)
            };
            if deep || r.chance(1, 5) {
                // "all byte strings" includes the valid ones: no corruption at all
                base
            } else {
                let mut log = Vec::new();
                corrupt(&base, &mut r, &mut log)
            }
        };
        let is64 = r.chance(1, 2);
        let (si, sf) = if r.chance(1, 2) || (cfg.miri && inp.digits() > 100) {
            (ShapeSpec::slice(), ShapeSpec::slice())
        } else {
            // segmented / relocating SimIter: an out-of-bounds read cannot hide inside one big buffer
            let mut k1 = ShapeSpec::draw_knobs(&mut r, inp.int.len());
            let mut k2 = ShapeSpec::draw_knobs(&mut r, inp.frac.len());
            if inp.int.len() > 2000 {
                k1.layout = shape::Layout::Segments(5);
            }
            if inp.frac.len() > 2000 {
                k2.layout = shape::Layout::Segments(5);
            }
            (
                ShapeSpec { kind: Kind::Sim, a: r.next_u64() as u32, knobs: k1 },
                ShapeSpec { kind: Kind::Sim, a: r.next_u64() as u32, knobs: k2 },
            )
        };
        inputs.push(inp);
        if !cfg.miri {
            // whatever the call leaves uninitialised on its stack overlays this pattern
            ops.push(POp::StackPoison { pattern: stack_pattern(&mut r), kib: *r.pick(&[8u32, 16, 32]) });
        }
        ops.push(POp::Parse { world: r.below(N_WORLDS as u64) as u8, f64: is64, input: k, si, sf });
    }
    ParCase {
        property: "C08".into(),
        inputs,
        tasks: vec![ops],
        sched: SchedSpec { kind: SchedKind::Sequential, seed: 0 },
        yield_mode: sched::YIELD_NONE,
        poison_ref: None,
        poison_run: if cfg.miri { None } else { Some(r.next_u64() | 2) },
        // heap back-end: fresh blocks hold seeded garbage (changed in the second execution)
        fill: if cfg.miri { None } else { Some(r.next_u64() | 1) },
        stack_kib: 512,
        lib_mask: 0,
        lib_every: 1,
        hammer: false,
        gate: false,
        ref_after: false,
        poison_mode: if cfg.miri { 0 } else { *r.pick(&[0u8, 0, 1, 2]) },
    }
}

// ---------------------------------------------------------------------------
// shrinking
// ---------------------------------------------------------------------------

fn plain_shape(s: &ShapeSpec) -> Option<ShapeSpec> {
    if s.kind == Kind::Slice {
        None
    } else {
        Some(ShapeSpec::slice())
    }
}

fn simpler_knobs(s: &ShapeSpec) -> Vec<ShapeSpec> {
    let mut out = Vec::new();
    if s.kind == Kind::Sim || s.kind == Kind::ChainSim {
        let k = s.knobs;
        if k.relocate {
            out.push(ShapeSpec { knobs: Knobs { relocate: false, ..k }, ..s.clone() });
        }
        if k.hint != shape::Hint::Exact {
            out.push(ShapeSpec { knobs: Knobs { hint: shape::Hint::Exact, ..k }, ..s.clone() });
        }
        if k.layout != shape::Layout::Contiguous {
            out.push(ShapeSpec { knobs: Knobs { layout: shape::Layout::Contiguous, ..k }, ..s.clone() });
        }
        if k.unfused {
            out.push(ShapeSpec { knobs: Knobs { unfused: false, ..k }, ..s.clone() });
        }
        if !k.spec_count || !k.spec_nth || k.spec_fold || k.spec_last {
            out.push(ShapeSpec {
                knobs: Knobs { spec_count: true, spec_nth: true, spec_fold: false, spec_last: false, ..k },
                ..s.clone()
            });
        }
    }
    out
}

impl Shrink for ParCase {
    fn candidates(&self) -> Vec<ParCase> {
        let mut out = Vec::new();
        // drop whole tasks
        if self.tasks.len() > 1 {
            for t in 0..self.tasks.len() {
                let mut c = self.clone();
                c.tasks.remove(t);
                if c.tasks.len() == 1 {
                    c.sched.kind = SchedKind::Sequential;
                }
                out.push(c);
            }
        }
        // drop operations
        for t in 0..self.tasks.len() {
            for (a, b) in removal_ranges(self.tasks[t].len()) {
                let mut c = self.clone();
                c.tasks[t].drain(a..b);
                if c.tasks.iter().all(|x| x.is_empty()) {
                    continue;
                }
                out.push(c);
            }
        }
        // simpler environment
        if self.yield_mode != sched::YIELD_NONE {
            let mut c = self.clone();
            c.yield_mode = if self.yield_mode == sched::YIELD_EVERY { sched::YIELD_KEY } else { sched::YIELD_NONE };
            out.push(c);
        }
        if self.fill.is_some() {
            let mut c = self.clone();
            c.fill = None;
            out.push(c);
        }
        if self.poison_mode != 0 {
            let mut c = self.clone();
            c.poison_mode = 0;
            out.push(c);
        }
        if self.lib_mask != 0 {
            let mut c = self.clone();
            c.lib_mask = 0;
            out.push(c);
        }
        if self.poison_run.is_some() && self.poison_run != self.poison_ref {
            let mut c = self.clone();
            c.poison_run = self.poison_ref;
            out.push(c);
        }
        if self.sched.kind != SchedKind::Sequential && self.tasks.len() > 1 {
            let mut c = self.clone();
            c.sched.kind = SchedKind::Sequential;
            out.push(c);
        }
        // simpler operations
        for t in 0..self.tasks.len() {
            for k in 0..self.tasks[t].len() {
                if let POp::Parse { world, f64, input, si, sf } = &self.tasks[t][k] {
                    let mut push = |op: POp| {
                        let mut c = self.clone();
                        c.tasks[t][k] = op;
                        out.push(c);
                    };
                    if let (Some(a), Some(b)) = (plain_shape(si), plain_shape(sf)) {
                        push(POp::Parse { world: *world, f64: *f64, input: *input, si: a, sf: b });
                    }
                    if let Some(a) = plain_shape(si) {
                        if shape::pair_allowed(a.kind, sf.kind) {
                            push(POp::Parse { world: *world, f64: *f64, input: *input, si: a, sf: sf.clone() });
                        }
                    }
                    if let Some(b) = plain_shape(sf) {
                        if shape::pair_allowed(si.kind, b.kind) {
                            push(POp::Parse { world: *world, f64: *f64, input: *input, si: si.clone(), sf: b });
                        }
                    }
                    for a in simpler_knobs(si) {
                        push(POp::Parse { world: *world, f64: *f64, input: *input, si: a, sf: sf.clone() });
                    }
                    for b in simpler_knobs(sf) {
                        push(POp::Parse { world: *world, f64: *f64, input: *input, si: si.clone(), sf: b });
                    }
                    if *world != 0 && self.property != "C15" {
                        push(POp::Parse { world: 0, f64: *f64, input: *input, si: si.clone(), sf: sf.clone() });
                    }
                    if *f64 {
                        push(POp::Parse { world: *world, f64: false, input: *input, si: si.clone(), sf: sf.clone() });
                    }
                }
            }
        }
        // shorter inputs (only those still referenced)
        for (ix, inp) in self.inputs.iter().enumerate() {
            let used = self.tasks.iter().flatten().any(|o| matches!(o, POp::Parse { input, .. } if *input == ix));
            if !used {
                continue;
            }
            let mut variants: Vec<Input> = Vec::new();
            let f = &inp.frac;
            let i = &inp.int;
            let valid_only = self.property != "C08";
            if f.len() > 1 {
                for cut in [f.len() / 2, f.len() - 1] {
                    let mut v = inp.clone();
                    v.frac.truncate(cut);
                    if valid_only {
                        while v.frac.last() == Some(&b'0') {
                            v.frac.pop();
                        }
                    }
                    variants.push(v);
                }
            }
            if f.len() == 1 {
                let mut v = inp.clone();
                v.frac.clear();
                variants.push(v);
            }
            if i.len() > 1 {
                for cut in [i.len() / 2, i.len() - 1] {
                    let mut v = inp.clone();
                    v.int.truncate(cut);
                    variants.push(v);
                }
                // drop leading part
                let mut v = inp.clone();
                v.int.drain(..i.len() / 2);
                if valid_only {
                    let nz = v.int.iter().position(|&c| c != b'0').unwrap_or(v.int.len());
                    v.int.drain(..nz);
                }
                variants.push(v);
            }
            if inp.exp != 0 {
                let mut v = inp.clone();
                v.exp = inp.exp / 2;
                variants.push(v);
            }
            for v in variants {
                if v == *inp {
                    continue;
                }
                let mut c = self.clone();
                c.inputs[ix] = v;
                out.push(c);
            }
        }
        out
    }
    fn size(&self) -> usize {
        self.tasks.iter().map(|t| t.len()).sum::<usize>() * 1000 + self.inputs.iter().map(|i| i.digits()).sum::<usize>()
    }
}

pub fn describe(case: &ParCase, with_trace: Option<&SchedTrace>) -> serde_json::Value {
    let inputs: Vec<serde_json::Value> = case
        .inputs
        .iter()
        .map(|i| {
            serde_json::json!({
                "family": i.family,
                "integer_hex": short_hex(&i.int), "integer_len": i.int.len(),
                "fraction_hex": short_hex(&i.frac), "fraction_len": i.frac.len(),
                "exponent": i.exp,
            })
        })
        .collect();
    let tasks: Vec<Vec<String>> = case
        .tasks
        .iter()
        .map(|t| {
            t.iter()
                .map(|o| match o {
                    POp::Parse { world, f64, input, si, sf } => format!(
                        "parse<{}>({}, input#{}, int:{:?}{}, frac:{:?}{})",
                        if *f64 { "f64" } else { "f32" },
                        worlds::WORLD_NAMES[*world as usize],
                        input,
                        si.kind,
                        if si.kind == Kind::Sim { format!("{:?}", si.knobs) } else { String::new() },
                        sf.kind,
                        if sf.kind == Kind::Sim { format!("{:?}", sf.knobs) } else { String::new() },
                    ),
                    POp::StackPoison { pattern, kib } => format!("stack_poison({:#x}, {} KiB)", pattern, kib),
                })
                .collect()
        })
        .collect();
    let mut v = serde_json::json!({
        "inputs": inputs,
        "tasks": tasks,
        "scheduler": format!("{:?}", match &case.sched.kind { SchedKind::Replay{decisions} => format!("Replay({} decisions)", decisions.len()), k => format!("{:?}", k) }),
        "scheduler_seed": case.sched.seed,
        "yield_mode": case.yield_mode,
        "library_sched_sites_mask": format!("{:#x}", case.lib_mask),
        "library_sched_sites_period": case.lib_every,
        "poison_run": case.poison_run,
        "alloc_fill": case.fill,
    });
    if let Some(t) = with_trace {
        let n = t.decisions.len().min(48);
        v["schedule_trace_prefix"] = serde_json::json!(t.decisions[..n].to_vec());
        v["scheduler_steps"] = serde_json::json!(t.steps);
        v["task_switches"] = serde_json::json!(t.switches);
    }
    v
}
