//! Scheduler seam (S3): who runs next is decided here and nowhere else.
//!
//! * feature `shuttle` (native engines): tasks are shuttle continuations on
//!   one OS thread; every scheduling decision is taken by `SimScheduler`
//!   below (our own implementation of shuttle's `Scheduler` trait, driven by
//!   the run's xoshiro stream), recorded, and replayable from the explicit
//!   decision list.
//! * without it (Miri engine): tasks are real `std::thread`s and Miri's own
//!   seeded scheduler pre-empts them anywhere; `yield_point` only nudges it.
//!
//! The library under test has no synchronisation of its own, so under shuttle
//! the only switch points are the ones the digit-stream seam introduces
//! (`yield_point`), plus spawn/join/exit.

use crate::alloc;
use crate::rng::{Fp, Rng};
use serde::{Deserialize, Serialize};
use std::cell::Cell;
use std::sync::atomic::{AtomicU64, AtomicU8, Ordering};
use std::sync::{Arc, Mutex};

#[derive(Clone, Debug, Serialize, Deserialize, PartialEq, Eq)]
pub enum SchedKind {
    /// uniformly random runnable task at every decision
    Random,
    /// PCT-style: random priorities, `depth` priority-change points in `horizon` steps
    Pct { depth: u8, horizon: u32 },
    /// keep the current task with probability 1 - 1/mean
    Burst { mean: u16 },
    /// lowest runnable id: tasks run one after another (the sequential history)
    Sequential,
    /// phase alignment: a task that reaches library site `site` is held there while the
    /// others catch up; when every runnable task is parked at the site (or done), they are
    /// released into `burst` uniformly random decisions. Puts several callers into the
    /// same rarely executed region at the same time (first use, shared scratch).
    Rendezvous { site: u8, burst: u16 },
    /// explicit decision list (task ids); falls back to current/lowest when the
    /// listed task is not runnable or the list is exhausted
    Replay { decisions: Vec<u8> },
}

#[derive(Clone, Debug, Serialize, Deserialize, PartialEq, Eq)]
pub struct SchedSpec {
    pub kind: SchedKind,
    pub seed: u64,
}

/// Seam operation kinds (event log / fingerprints).
pub const OP_NEXT: u8 = 1;
pub const OP_CLONE: u8 = 2;
pub const OP_COUNT: u8 = 3;
pub const OP_HINT: u8 = 4;
pub const OP_OTHER: u8 = 5;
pub const OP_CALL_BEGIN: u8 = 6;
pub const OP_CALL_END: u8 = 7;
pub const OP_LIB: u8 = 8;

/// Yield density (per run).
pub const YIELD_NONE: u8 = 0;
pub const YIELD_EVERY: u8 = 1;
pub const YIELD_ONE_IN_8: u8 = 2;
pub const YIELD_KEY: u8 = 3;

static YIELD_MODE: AtomicU8 = AtomicU8::new(YIELD_NONE);
/// Library-side cooperative scheduling points (the `sched_point` hook): which
/// sites are enabled this run (bit per site) and how often an enabled site yields.
static LIB_MASK: AtomicU64 = AtomicU64::new(0);
static LIB_EVERY: AtomicU64 = AtomicU64::new(1);
static LIB_HITS: AtomicU64 = AtomicU64::new(0);
static LIB_YIELDS: AtomicU64 = AtomicU64::new(0);
/// Rendezvous scheduling: the site tasks are held at (0 = off) and who is parked there.
static RDV_SITE: AtomicU8 = AtomicU8::new(0);
static PARKED: [AtomicU8; 8] = [
    AtomicU8::new(0),
    AtomicU8::new(0),
    AtomicU8::new(0),
    AtomicU8::new(0),
    AtomicU8::new(0),
    AtomicU8::new(0),
    AtomicU8::new(0),
    AtomicU8::new(0),
];
static IN_WORLD: AtomicU8 = AtomicU8::new(0);
static STEP: AtomicU64 = AtomicU64::new(0);

thread_local! {
    // std-thread engine: the task index of this thread. (Under shuttle all
    // tasks share one OS thread and the index comes from shuttle instead.)
    static TASK_IX: Cell<usize> = const { Cell::new(usize::MAX) };
}

/// What one simulated run's scheduler did.
#[derive(Clone, Debug, Default)]
pub struct SchedTrace {
    pub decisions: Vec<u8>,
    pub switches: u64,
    pub steps: u64,
    pub events: u64,
    pub event_fp: u64,
    pub preempted_calls: u64,
}

struct EventLog {
    fp: Fp,
    n: u64,
    last_task: usize,
    switches_seen: u64,
}

static EVENTS: Mutex<Option<EventLog>> = Mutex::new(None);

/// Append one seam event (task, op kind, position). No PRNG draw, no clock.
#[inline]
pub fn log_event(kind: u8, pos: u64) {
    if IN_WORLD.load(Ordering::Relaxed) == 0 {
        return;
    }
    let t = me();
    let mut g = EVENTS.lock().unwrap();
    if let Some(l) = g.as_mut() {
        l.fp.push(((t as u64) << 56) ^ ((kind as u64) << 48) ^ pos);
        l.n += 1;
        if l.last_task != t {
            l.switches_seen += 1;
            l.last_task = t;
        }
    }
}

/// Global step counter (monotone; stamps invoke/return events of histories).
pub fn step() -> u64 {
    STEP.load(Ordering::Relaxed)
}

pub fn in_world() -> bool {
    IN_WORLD.load(Ordering::Relaxed) != 0
}

pub fn yield_mode() -> u8 {
    YIELD_MODE.load(Ordering::Relaxed)
}

/// Index (0-based) of the calling simulated task; 0 outside a world.
pub fn me() -> usize {
    #[cfg(feature = "shuttle")]
    {
        if IN_WORLD.load(Ordering::Relaxed) == 1 {
            let id: usize = shuttle::current::me().into();
            return id.saturating_sub(1);
        }
    }
    let t = TASK_IX.with(|c| c.get());
    if t == usize::MAX {
        0
    } else {
        t
    }
}

/// The seam's scheduling point. `key` marks the places where the parser
/// changes mode (clone, 1st/19th/20th pull, MAX_DIGITS-th, last).
#[inline]
pub fn yield_point(kind: u8, pos: u64, key: bool, callno: u64) {
    if IN_WORLD.load(Ordering::Relaxed) == 0 {
        return;
    }
    log_event(kind, pos);
    let do_yield = match YIELD_MODE.load(Ordering::Relaxed) {
        YIELD_NONE => false,
        YIELD_EVERY => true,
        YIELD_ONE_IN_8 => key || callno % 8 == 0,
        _ => key,
    };
    if do_yield {
        force_yield();
    }
}

/// Callback installed into the library's `verif::sched_point` hook.
pub fn lib_hook(site: u32) {
    if IN_WORLD.load(Ordering::Relaxed) == 0 {
        return;
    }
    if LIB_MASK.load(Ordering::Relaxed) & (1u64 << (site & 63)) == 0 {
        return;
    }
    let n = LIB_HITS.fetch_add(1, Ordering::Relaxed);
    log_event(OP_LIB, site as u64);
    if gated() {
        LIB_YIELDS.fetch_add(1, Ordering::Relaxed);
        STEP.fetch_add(1, Ordering::Relaxed);
        gate();
        return;
    }
    if RDV_SITE.load(Ordering::Relaxed) as u32 == site && site != 0 {
        let t = me() & 7;
        PARKED[t].store(1, Ordering::Relaxed);
        LIB_YIELDS.fetch_add(1, Ordering::Relaxed);
        force_yield();
        PARKED[t].store(0, Ordering::Relaxed);
        return;
    }
    if n % LIB_EVERY.load(Ordering::Relaxed).max(1) == 0 {
        LIB_YIELDS.fetch_add(1, Ordering::Relaxed);
        force_yield();
    }
}

pub fn set_lib_sites(mask: u64, every: u32) {
    LIB_MASK.store(mask, Ordering::Relaxed);
    LIB_EVERY.store(every.max(1) as u64, Ordering::Relaxed);
}

/// (site hits, yields taken at library sites) since the counters were last read.
pub fn take_lib_counters() -> (u64, u64) {
    (LIB_HITS.swap(0, Ordering::Relaxed), LIB_YIELDS.swap(0, Ordering::Relaxed))
}

/// Unconditional switch point (window suspended around it).
#[inline]
pub fn force_yield() {
    if IN_WORLD.load(Ordering::Relaxed) == 0 {
        return;
    }
    STEP.fetch_add(1, Ordering::Relaxed);
    let saved = alloc::suspend();
    #[cfg(feature = "shuttle")]
    {
        shuttle::thread::sleep(std::time::Duration::ZERO);
    }
    #[cfg(not(feature = "shuttle"))]
    {
        std::thread::yield_now();
    }
    alloc::resume(saved);
}

type Body = Arc<dyn Fn(usize) + Send + Sync + 'static>;

// Lockstep gate (std-thread engine only). Real threads under Miri are pre-empted at random, and the
// thread spawned first is thousands of basic blocks ahead of the next: windows of a few dozen blocks
// (two writers inside an unlocked store loop of a shared memo) practically never overlap. In a gated
// run every task waits for all the others before each of its operations *and at every library
// scheduling point*; tasks doing similar work therefore leave each site together and Miri's seeded
// pre-emption interleaves them inside the stretch up to the next site. A task that ends leaves the
// gate, so unequal numbers of arrivals cannot deadlock. Under shuttle the Rendezvous scheduler plays
// this part and the gate is compiled out.
#[cfg(not(feature = "shuttle"))]
mod lockstep {
    use std::sync::{Condvar, Mutex};
    pub struct G {
        pub parties: usize,
        pub arrived: usize,
        pub gen: u64,
    }
    pub static G: Mutex<G> = Mutex::new(G { parties: 0, arrived: 0, gen: 0 });
    pub static CV: Condvar = Condvar::new();
}

pub fn set_gate(_n: usize) {
    #[cfg(not(feature = "shuttle"))]
    {
        let mut g = lockstep::G.lock().unwrap();
        g.parties = if _n > 1 { _n } else { 0 };
        g.arrived = 0;
    }
}

/// Wait until every task still in the gate has arrived.
pub fn gate() {
    #[cfg(not(feature = "shuttle"))]
    {
        let saved = alloc::suspend();
        {
            let mut g = lockstep::G.lock().unwrap();
            if g.parties > 1 {
                g.arrived += 1;
                if g.arrived >= g.parties {
                    g.arrived = 0;
                    g.gen += 1;
                    lockstep::CV.notify_all();
                } else {
                    let gen = g.gen;
                    while g.gen == gen && g.parties > 1 {
                        g = lockstep::CV.wait(g).unwrap();
                    }
                }
            }
        }
        alloc::resume(saved);
    }
}

/// A task that has finished its operations no longer takes part.
pub fn leave_gate() {
    #[cfg(not(feature = "shuttle"))]
    {
        let mut g = lockstep::G.lock().unwrap();
        if g.parties > 0 {
            g.parties -= 1;
            if g.arrived >= g.parties {
                g.arrived = 0;
                g.gen += 1;
            }
            lockstep::CV.notify_all();
        }
    }
}

fn gated() -> bool {
    #[cfg(not(feature = "shuttle"))]
    {
        return lockstep::G.lock().unwrap().parties > 1;
    }
    #[allow(unreachable_code)]
    false
}

// ---------------------------------------------------------------------------
// shuttle engine
// ---------------------------------------------------------------------------

#[cfg(feature = "shuttle")]
mod engine {
    use super::*;
    use shuttle::scheduler::{Schedule, Scheduler, Task, TaskId};

    pub struct SimScheduler {
        kind: SchedKind,
        rng: Rng,
        data_rng: Rng,
        started: bool,
        step: usize,
        prio: Vec<u64>,
        change_points: Vec<usize>,
        free_steps: u32,
        pub out: Arc<Mutex<(Vec<u8>, u64)>>, // decisions, switches
    }

    impl SimScheduler {
        pub fn new(spec: &SchedSpec, out: Arc<Mutex<(Vec<u8>, u64)>>) -> Self {
            let mut rng = Rng::new(spec.seed);
            let mut change_points = Vec::new();
            if let SchedKind::Pct { depth, horizon } = &spec.kind {
                for _ in 1..*depth {
                    change_points.push(rng.usize_below((*horizon).max(1) as usize));
                }
            }
            SimScheduler {
                kind: spec.kind.clone(),
                data_rng: rng.fork(77),
                rng,
                started: false,
                step: 0,
                prio: Vec::new(),
                change_points,
                free_steps: 0,
                out,
            }
        }

        fn prio_of(&mut self, id: usize) -> u64 {
            while self.prio.len() <= id {
                // high random priorities; change points assign low ones
                let p = 1_000 + self.rng.below(1 << 40);
                self.prio.push(p);
            }
            self.prio[id]
        }
    }

    impl Scheduler for SimScheduler {
        fn new_execution(&mut self) -> Option<Schedule> {
            if self.started {
                None
            } else {
                self.started = true;
                Some(Schedule::new(0))
            }
        }

        fn next_task(&mut self, runnable: &[&Task], current: Option<TaskId>, _is_yielding: bool) -> Option<TaskId> {
            let ids: Vec<usize> = runnable.iter().map(|t| usize::from(t.id())).collect();
            let cur: Option<usize> = current.map(usize::from);
            let cur_runnable = cur.map(|c| ids.contains(&c)).unwrap_or(false);
            let lowest = *ids.iter().min().unwrap();
            let choice = match &self.kind {
                SchedKind::Random => ids[self.rng.usize_below(ids.len())],
                SchedKind::Sequential => lowest,
                SchedKind::Burst { mean } => {
                    if cur_runnable && !self.rng.chance(1, (*mean).max(1) as u64) {
                        cur.unwrap()
                    } else {
                        ids[self.rng.usize_below(ids.len())]
                    }
                },
                SchedKind::Pct { .. } => {
                    if self.change_points.contains(&self.step) {
                        if let Some(c) = cur {
                            let _ = self.prio_of(c);
                            // demote the running task below everything else
                            self.prio[c] = self.change_points.iter().position(|&p| p == self.step).unwrap() as u64;
                        }
                    }
                    let mut best = ids[0];
                    let mut best_p = 0;
                    for &i in &ids {
                        let p = self.prio_of(i);
                        if p >= best_p {
                            best_p = p;
                            best = i;
                        }
                    }
                    best
                },
                SchedKind::Rendezvous { burst, .. } => {
                    // user tasks have ids >= 1 (task i has id i + 1); the main task only spawns and joins
                    let is_parked = |id: usize| id >= 1 && PARKED[(id - 1) & 7].load(Ordering::Relaxed) != 0;
                    if self.free_steps > 0 {
                        self.free_steps -= 1;
                        ids[self.rng.usize_below(ids.len())]
                    } else {
                        let unparked: Vec<usize> = ids.iter().cloned().filter(|&i| !is_parked(i)).collect();
                        if unparked.is_empty() {
                            // everybody is at the site: release them into fine-grained interleaving
                            self.free_steps = *burst as u32;
                            ids[self.rng.usize_below(ids.len())]
                        } else if cur_runnable && unparked.contains(&cur.unwrap()) && !self.rng.chance(1, 64) {
                            cur.unwrap()
                        } else {
                            unparked[self.rng.usize_below(unparked.len())]
                        }
                    }
                },
                SchedKind::Replay { decisions } => match decisions.get(self.step) {
                    Some(&d) if ids.contains(&(d as usize)) => d as usize,
                    _ => {
                        if cur_runnable {
                            cur.unwrap()
                        } else {
                            lowest
                        }
                    },
                },
            };
            self.step += 1;
            {
                let mut g = self.out.lock().unwrap();
                g.0.push(choice as u8);
                if cur.is_some() && cur != Some(choice) {
                    g.1 += 1;
                }
            }
            Some(TaskId::from(choice))
        }

        fn next_u64(&mut self) -> u64 {
            self.data_rng.next_u64()
        }
    }

    pub fn run(spec: &SchedSpec, n: usize, stack_kib: usize, body: Body) -> (Vec<u8>, u64) {
        let out = Arc::new(Mutex::new((Vec::new(), 0u64)));
        let sched = SimScheduler::new(spec, out.clone());
        let mut cfg = shuttle::Config::new();
        cfg.stack_size = stack_kib * 1024;
        cfg.failure_persistence = shuttle::FailurePersistence::None;
        cfg.max_steps = shuttle::MaxSteps::None;
        cfg.silence_warnings = true;
        let runner = shuttle::Runner::new(sched, cfg);
        runner.run(move || {
            let mut hs = Vec::with_capacity(n);
            for i in 0..n {
                let b = body.clone();
                hs.push(shuttle::thread::spawn(move || b(i)));
            }
            for h in hs {
                h.join().unwrap();
            }
        });
        let g = out.lock().unwrap();
        (g.0.clone(), g.1)
    }
}

// ---------------------------------------------------------------------------
// std-thread engine (Miri)
// ---------------------------------------------------------------------------

#[cfg(not(feature = "shuttle"))]
mod engine {
    use super::*;

    pub fn run(_spec: &SchedSpec, n: usize, _stack_kib: usize, body: Body) -> (Vec<u8>, u64) {
        if n == 1 {
            // a single task needs no second thread: run it inline
            let prev = TASK_IX.with(|c| c.replace(0));
            body(0);
            TASK_IX.with(|c| c.set(prev));
            return (Vec::new(), 0);
        }
        let mut hs = Vec::with_capacity(n);
        for i in 0..n {
            let b = body.clone();
            hs.push(std::thread::spawn(move || {
                TASK_IX.with(|c| c.set(i));
                b(i)
            }));
        }
        for h in hs {
            h.join().unwrap();
        }
        (Vec::new(), 0)
    }
}

/// Run `n` simulated tasks (`body(i)` for i in 0..n) to completion under the
/// given scheduler; returns what the scheduler did.
pub fn run_world(spec: &SchedSpec, n: usize, yield_mode: u8, stack_kib: usize, body: Body) -> SchedTrace {
    assert!(IN_WORLD.load(Ordering::Relaxed) == 0, "worlds do not nest");
    YIELD_MODE.store(yield_mode, Ordering::Relaxed);
    *EVENTS.lock().unwrap() = Some(EventLog { fp: Fp::new(), n: 0, last_task: usize::MAX, switches_seen: 0 });
    // stamps and hit counters are relative to the run: one seed = one repeatable execution,
    // wherever it runs and whatever ran before it in the same process
    STEP.store(0, Ordering::Relaxed);
    LIB_HITS.store(0, Ordering::Relaxed);
    LIB_YIELDS.store(0, Ordering::Relaxed);
    let step0 = 0;
    RDV_SITE.store(if let SchedKind::Rendezvous { site, .. } = &spec.kind { *site } else { 0 }, Ordering::Relaxed);
    for p in PARKED.iter() {
        p.store(0, Ordering::Relaxed);
    }
    IN_WORLD.store(if cfg!(feature = "shuttle") { 1 } else { 2 }, Ordering::Relaxed);
    let (decisions, switches) = engine::run(spec, n, stack_kib, body);
    IN_WORLD.store(0, Ordering::Relaxed);
    RDV_SITE.store(0, Ordering::Relaxed);
    YIELD_MODE.store(YIELD_NONE, Ordering::Relaxed);
    let log = EVENTS.lock().unwrap().take().unwrap();
    SchedTrace {
        decisions,
        switches,
        steps: STEP.load(Ordering::Relaxed) - step0,
        events: log.n,
        event_fp: log.fp.finish(),
        preempted_calls: log.switches_seen,
    }
}

/// One dummy shuttle run so that shuttle's (noisy) panic hook is installed
/// first and ours can be layered on top afterwards.
pub fn warm_up() {
    #[cfg(feature = "shuttle")]
    {
        let spec = SchedSpec { kind: SchedKind::Sequential, seed: 0 };
        let _ = run_world(&spec, 1, YIELD_NONE, 64, Arc::new(|_| {}));
    }
}
