//! Shared generator of *valid* parse requests (digits only, no leading zeros
//! in the integer, no trailing zeros in the fraction), built with the
//! simulator's own `Nat` so that nothing is trusted from the code under test.
//! Inputs need not be judged (no property claimed here needs the true value),
//! only delivered and reproduced.
//!
//! Families: fast path, moderate path, exact-halfway decimal expansions of
//! `b + h` and their near-misses (these are what reach the big-integer tier),
//! long strings, extremes, zero/empty; plus *related variants* (same value
//! re-split, same prefix / different tail, same digits / different exponent),
//! because state leaking between calls shows on related inputs.

use crate::nat::Nat;
use crate::rng::Rng;
use serde::{Deserialize, Serialize};

#[derive(Clone, Debug, Serialize, Deserialize, PartialEq, Eq, Hash)]
pub struct Input {
    pub int: Vec<u8>,
    pub frac: Vec<u8>,
    pub exp: i32,
    pub family: String,
}

impl Input {
    pub fn digits(&self) -> usize {
        self.int.len() + self.frac.len()
    }
}

/// (digits, dec_exp): value = digits * 10^dec_exp, digits canonical (no leading zero).
#[derive(Clone, Debug)]
pub struct Dec {
    pub digits: Vec<u8>,
    pub dec_exp: i64,
}

fn clamp_i32(x: i64) -> i32 {
    x.clamp(i32::MIN as i64, i32::MAX as i64) as i32
}

/// Split a decimal into (integer, fraction, exponent) at a drawn point.
pub fn split(d: &Dec, r: &mut Rng, family: &str) -> Input {
    let l = d.digits.len();
    let s = match r.below(6) {
        0 => 0,
        1 => l,
        2 => l.min(1),
        3 => l.min(19),
        _ => r.usize_below(l + 1),
    };
    split_at(d, s, if s == 0 && r.chance(1, 3) { r.usize_below(40) } else { 0 }, family)
}

pub fn split_at(d: &Dec, s: usize, lead_zeros: usize, family: &str) -> Input {
    let l = d.digits.len();
    let s = s.min(l);
    let int = d.digits[..s].to_vec();
    let mut frac = Vec::new();
    let mut z = 0;
    if s == 0 && !d.digits.is_empty() {
        z = lead_zeros;
        frac.extend(std::iter::repeat(b'0').take(z));
    }
    frac.extend_from_slice(&d.digits[s..]);
    while frac.last() == Some(&b'0') {
        frac.pop();
    }
    let exp = d.dec_exp + (l - s) as i64 + z as i64;
    Input { int, frac, exp: clamp_i32(exp), family: family.to_string() }
}

/// Exact decimal expansion of (2m+1) * 2^(e-1), the midpoint above m * 2^e.
pub fn halfway_decimal(m: u64, e: i32) -> Dec {
    let odd = Nat::from_u128(2 * m as u128 + 1);
    let e1 = e - 1;
    if e1 >= 0 {
        Dec { digits: odd.shl(e1 as usize).to_decimal(), dec_exp: 0 }
    } else {
        let k = (-e1) as u32;
        Dec { digits: odd.mul(&Nat::pow_fast(5, k)).to_decimal(), dec_exp: -(k as i64) }
    }
}

/// Exact decimal expansion of m * 2^e.
pub fn exact_decimal(m: u64, e: i32) -> Dec {
    let n = Nat::from_u64(m);
    if m == 0 {
        return Dec { digits: vec![], dec_exp: 0 };
    }
    if e >= 0 {
        Dec { digits: n.shl(e as usize).to_decimal(), dec_exp: 0 }
    } else {
        let k = (-e) as u32;
        let mut digits = n.mul(&Nat::pow_fast(5, k)).to_decimal();
        let mut dec_exp = -(k as i64);
        while digits.last() == Some(&b'0') {
            digits.pop();
            dec_exp += 1;
        }
        Dec { digits, dec_exp }
    }
}

/// Decompose finite positive float bits into (mantissa with hidden bit, binary exponent).
pub fn decompose(bits: u64, is_f64: bool) -> (u64, i32) {
    if is_f64 {
        let ef = ((bits >> 52) & 0x7FF) as i32;
        let mf = bits & ((1u64 << 52) - 1);
        if ef == 0 {
            (mf, -1074)
        } else {
            (mf | (1u64 << 52), ef - 1075)
        }
    } else {
        let ef = ((bits >> 23) & 0xFF) as i32;
        let mf = bits & ((1u64 << 23) - 1);
        if ef == 0 {
            (mf, -149)
        } else {
            (mf | (1u64 << 23), ef - 150)
        }
    }
}

/// Draw finite positive float bits, weighted to the places where rounding is delicate.
pub fn draw_float_bits(r: &mut Rng, is_f64: bool) -> u64 {
    let (mbits, emax) = if is_f64 { (52u32, 0x7FEu64) } else { (23u32, 0xFEu64) };
    let mmask = (1u64 << mbits) - 1;
    let mant = |r: &mut Rng| -> u64 {
        match r.below(6) {
            0 => 0,
            1 => mmask,
            2 => 1,
            3 => mmask - 1,
            _ => r.next_u64() & mmask,
        }
    };
    let ef = match r.below(12) {
        0 | 1 => 0,                    // subnormal
        2 => 1,                        // smallest normals
        3 => emax,                     // largest finite binade
        4 => emax - r.below(40),       // huge
        5 => 1 + r.below(60),          // tiny normals
        6 | 7 => (emax / 2) - 30 + r.below(120), // around 1.0 .. 2^90
        _ => r.below(emax + 1),
    };
    let mut m = mant(r);
    if ef == 0 && m == 0 && !r.chance(1, 3) {
        // (+0.0 stays in with probability 1/3: its upper midpoint, half the smallest
        // subnormal, is the rounding boundary between zero and the first float)
        m = 1 + r.below(mmask);
    }
    (ef << mbits) | m
}

fn random_digits(r: &mut Rng, n: usize) -> Vec<u8> {
    let mut v: Vec<u8> = (0..n).map(|_| r.digit()).collect();
    if n > 0 {
        v[0] = r.nonzero_digit();
        v[n - 1] = r.nonzero_digit();
    }
    v
}

/// Near-halfway variants of an exact midpoint expansion.
fn halfway_variant(d: &Dec, r: &mut Rng, max_tail: usize) -> (Dec, &'static str) {
    let mut digits = d.digits.clone();
    let mut dec_exp = d.dec_exp;
    let l = digits.len();
    match r.below(10) {
        9 => {
            // the exact tie written with extra zeros at the end of the *integer* part (valid: only
            // the fraction must be free of trailing zeros), so that the digit count crosses 19 /
            // MAX_DIGITS by a few and the truncated tail is all zeros
            let t = match r.below(3) {
                0 => 1 + r.usize_below(40),
                1 => (770usize.saturating_sub(l)).max(1) + r.usize_below(30),
                _ => (115usize.saturating_sub(l)).max(1) + r.usize_below(30),
            };
            digits.extend(std::iter::repeat(b'0').take(t));
            dec_exp -= t as i64;
            (Dec { digits, dec_exp }, "halfway_zero_padded_integer")
        },
        0 | 1 => (Dec { digits, dec_exp }, "halfway_exact"),
        2 => {
            // last digit + 1 (never '9' -> the expansions end in 5 or an even/odd integer digit)
            if digits[l - 1] < b'9' {
                digits[l - 1] += 1;
            } else {
                digits.push(b'1');
                dec_exp -= 1;
            }
            (Dec { digits, dec_exp }, "halfway_above_last_digit")
        },
        3 => {
            if digits[l - 1] > b'1' || (digits[l - 1] == b'1' && l > 1) {
                digits[l - 1] -= 1;
                if digits[l - 1] == b'0' {
                    // keep the fraction free of trailing zeros without changing the intent
                    digits.push(b'9');
                    dec_exp -= 1;
                }
            }
            (Dec { digits, dec_exp }, "halfway_below_last_digit")
        },
        4 | 5 => {
            // tie followed by 0...01
            let t = 1 + r.usize_below(max_tail);
            digits.extend(std::iter::repeat(b'0').take(t - 1));
            digits.push(b'1');
            dec_exp -= t as i64;
            (Dec { digits, dec_exp }, "halfway_plus_tail")
        },
        6 => {
            // just below: ...(d-1) 9...9
            let t = 1 + r.usize_below(max_tail);
            if digits[l - 1] > b'0' {
                digits[l - 1] -= 1;
                digits.extend(std::iter::repeat(b'9').take(t));
                dec_exp -= t as i64;
            }
            if digits[0] == b'0' {
                // (single digit 1 -> 0 999..): canonicalise
                let nz = digits.iter().position(|&c| c != b'0').unwrap_or(digits.len());
                digits.drain(..nz);
            }
            (Dec { digits, dec_exp }, "halfway_minus_tail")
        },
        7 => {
            // truncated after k digits (k around the interesting thresholds)
            let k = match r.below(4) {
                0 => 19,
                1 => 20,
                2 => *r.pick(&[17usize, 18, 21, 38, 112, 113, 114, 115, 767, 768, 769, 770]),
                _ => 1 + r.usize_below(l),
            }
            .min(l)
            .max(1);
            dec_exp += (l - k) as i64;
            digits.truncate(k);
            while digits.last() == Some(&b'0') && digits.len() > 1 {
                digits.pop();
                dec_exp += 1;
            }
            (Dec { digits, dec_exp }, "halfway_truncated")
        },
        _ => {
            // sticky digit far out, at a 19-digit chunk boundary or around MAX_DIGITS
            let target = *r.pick(&[19usize * 2, 19 * 3, 19 * 6, 19 * 40, 113, 114, 115, 768, 769, 770, 800, 1500]);
            if target > l {
                let t = target - l;
                digits.extend(std::iter::repeat(b'0').take(t - 1));
                digits.push(r.nonzero_digit());
                dec_exp -= t as i64;
            }
            (Dec { digits, dec_exp }, "halfway_far_sticky")
        },
    }
}

/// Is `x` (a non-zero natural number) within 2^-`slack` (relative) of a rounding
/// boundary of a `mbits`-bit significand, i.e. do the `slack` bits below the
/// rounding bit all agree (1000..0 / 0111..1 patterns)? Such values defeat the
/// 64-bit middle stage and reach the big-integer tier.
fn near_halfway(x: &Nat, mbits: usize, slack: usize) -> bool {
    let bl = x.bit_length();
    if bl < mbits + 1 + slack {
        // fewer bits than significand + rounding bit + slack: exact tie iff it has exactly mbits+1 bits and is odd
        return bl == mbits + 1 && x.bit(0);
    }
    let round = x.bit(bl - mbits - 1);
    (0..slack).all(|i| x.bit(bl - mbits - 2 - i) != round)
}

/// Mantissas on a 64-bit limb boundary of the big integer: M = c * 2^(64k) +- delta
/// with a tiny delta, times 10^q with q chosen so that the value is (nearly) a
/// rounding boundary. Their big integers consist of runs of all-zero or all-ones
/// limbs: carries ripple across many limbs and out of the top one, partial
/// products of long multiplication vanish, shifts move nothing but zeros.
pub fn limb_boundary_deep(r: &mut Rng) -> Input {
    limb_boundary_impl(r, false, true)
}

fn limb_boundary(r: &mut Rng, short: bool) -> Input {
    limb_boundary_impl(r, short, false)
}

fn limb_boundary_impl(r: &mut Rng, short: bool, force_deep: bool) -> Input {
    let is_f64 = force_deep || !short || r.chance(1, 3);
    let mbits = if is_f64 { 53 } else { 24 };
    let k = if force_deep { 6 + r.usize_below(3) } else { 1 + r.usize_below(if short { 2 } else { 9 }) };
    // (a) constructive: 0 <= q <= 23, c * 5^q odd with exactly mbits + 1 bits  => an exact tie (+- delta)
    // (b) search: 135 <= q <= 300 (the large power-of-five step of the big integer), c small and odd
    let deep = force_deep || (is_f64 && !short && r.chance(1, 2));
    // keep the value finite: decimal digits of M (about 19.3 k + 5) + q <= 307
    let qmax = 300u32.saturating_sub((19.3 * k as f64) as u32);
    let mut c_q: Option<(Nat, u32)> = None;
    if deep && qmax >= 136 {
        for _ in 0..(if force_deep { 64 } else { 16 }) {
            let c = (r.below(1 << 15) | 1) as u64;
            let mut q = 135 + r.below((qmax - 135).min(40) as u64 + 1) as u32;
            let mut p5 = Nat::pow_fast(5, q);
            while q <= qmax {
                let x = p5.mul_u64(c);
                if near_halfway(&x, mbits, 12) {
                    c_q = Some((Nat::from_u64(c), q));
                    break;
                }
                p5 = p5.mul_u64(5);
                q += 1;
            }
            if c_q.is_some() {
                break;
            }
        }
    }
    let (c, q) = match c_q {
        Some(v) => v,
        None => {
            let q = r.below(if is_f64 { 24 } else { 11 }) as u32;
            let p5 = Nat::pow_fast(5, q);
            // c odd with c * 5^q in [2^mbits, 2^(mbits+1))
            let lo = Nat::from_u64(1).shl(mbits);
            let mut c = 1u64;
            let p5v = p5.to_u64().unwrap_or(u64::MAX);
            if p5v < (1u64 << mbits) {
                let cmin = ((1u64 << mbits) + p5v - 1) / p5v;
                let cmax = ((1u64 << (mbits + 1)) - 1) / p5v;
                if cmax >= cmin {
                    c = (cmin + r.below(cmax - cmin + 1)) | 1;
                    if c > cmax {
                        c = cmax;
                    }
                }
            }
            let _ = lo;
            (Nat::from_u64(c), q)
        },
    };
    let base = c.shl(64 * k);
    let delta = match r.below(6) {
        0 | 1 => 0u64,
        2 => 1 + r.below(9),
        3 => r.below(1000),
        _ => r.below(10_000_000_000_000_000_000),
    };
    let m = if r.chance(1, 2) || base.bit_length() < 70 {
        base.add_u64(delta)
    } else {
        // base - delta: schoolbook via two's complement on limbs
        let mut l = base.to_limbs64();
        let mut borrow = delta;
        for x in l.iter_mut() {
            let (v, b) = x.overflowing_sub(borrow);
            *x = v;
            borrow = b as u64;
            if borrow == 0 {
                break;
            }
        }
        Nat::from_limbs64(&l)
    };
    let mut digits = m.to_decimal();
    let mut dec_exp = q as i64;
    while digits.last() == Some(&b'0') && digits.len() > 1 {
        digits.pop();
        dec_exp += 1;
    }
    let d = Dec { digits, dec_exp };
    let name = match (is_f64, q >= 135) {
        (true, true) => "limb_boundary_deep_f64",
        (true, false) => "limb_boundary_f64",
        (false, true) => "limb_boundary_deep_f32",
        (false, false) => "limb_boundary_f32",
    };
    if r.chance(2, 3) {
        split_at(&d, usize::MAX, 0, name)
    } else {
        split(&d, r, name)
    }
}

/// Requests that land in `compute_float`'s "128-bit product inconclusive" branch (low product
/// word all ones): 17 (significand, exponent) pairs exist for the pinned table, none of which a
/// random draw would ever hit (2^-64 per request). Solved from the table by tools/lemire_rare.py.
/// Delivered as they are, with further digits behind the 19th (the stage then also runs on
/// w + 1), or re-split; f32 and f64 callers both get them.
fn lemire_inconclusive(r: &mut Rng) -> Input {
    let t = crate::lemire_rare::LEMIRE_RARE;
    if t.is_empty() {
        let d = Dec { digits: random_digits(r, 19), dec_exp: r.range(-340, 300) };
        return split(&d, r, "moderate");
    }
    let (_is_f64, safe, m, q) = *r.pick(t);
    let mut digits = m.to_string().into_bytes();
    let mut dec_exp = q as i64;
    let name = if safe { "lemire_inconclusive_safe_q" } else { "lemire_inconclusive" };
    if r.chance(1, 2) {
        let cap = if r.chance(1, 8) { 800 } else { 30 };
        let n = 1 + r.usize_below(cap);
        let mut tail = match r.below(3) {
            0 => vec![b'0'; n],
            1 => vec![b'9'; n],
            _ => random_digits(r, n),
        };
        *tail.last_mut().unwrap() = r.nonzero_digit();
        dec_exp -= tail.len() as i64;
        digits.extend_from_slice(&tail);
    }
    split(&Dec { digits, dec_exp }, r, name)
}

#[derive(Clone, Copy, Debug, PartialEq, Eq)]
pub enum Mix {
    /// C16: everything
    Balanced,
    /// C15: extra weight on the big-integer tier with |decimal exponent| >= 135
    AllocHeavy,
    /// cheap inputs only (Miri budgets)
    Short,
}

/// Draw one valid request.
pub fn draw_input(r: &mut Rng, mix: Mix, is_f64_hint: bool, rare_huge: bool) -> Input {
    let fam = match mix {
        Mix::Balanced => r.weighted(&[10, 12, 34, 14, 8, 6, 8, 5, 5, 2]),
        Mix::AllocHeavy => r.weighted(&[4, 6, 50, 12, 4, 2, 10, 6, 6, 2]),
        Mix::Short => r.weighted(&[15, 15, 48, 5, 10, 5, 0, 1, 3, 2]),
    };
    match fam {
        0 => {
            // fast path: <= 19 digits, |q| <= 37
            let n = 1 + r.usize_below(19);
            let d = Dec { digits: random_digits(r, n), dec_exp: r.range(-37, 37) };
            split(&d, r, "fast")
        },
        1 => {
            // moderate path
            let n = 1 + r.usize_below(19);
            let d = Dec { digits: random_digits(r, n), dec_exp: r.range(-345 - 19, 310) };
            split(&d, r, "moderate")
        },
        2 | 6 => {
            // halfway expansions. Family 6 = f64 with a large decimal exponent (>= 135 digits of scale)
            let is_f64 = if fam == 6 { true } else if mix == Mix::Short { r.chance(1, 5) } else { is_f64_hint ^ r.chance(1, 4) };
            let mut bits = draw_float_bits(r, is_f64);
            if fam == 6 {
                // force |binary exponent| large: subnormal/tiny or huge
                let ef = if r.chance(1, 2) { r.below(500) } else { 0x7FE - r.below(520) };
                bits = (ef << 52) | (bits & ((1u64 << 52) - 1));
                if ef == 0 && bits == 0 {
                    bits = 1;
                }
            }
            let (m, e) = decompose(bits, is_f64);
            let base = halfway_decimal(m, e);
            let max_tail = match mix {
                Mix::Short => 8,
                _ => {
                    if r.chance(1, 6) {
                        1500
                    } else {
                        60
                    }
                },
            };
            let (v, name) = halfway_variant(&base, r, max_tail);
            let mut inp = if name == "halfway_zero_padded_integer" { split_at(&v, usize::MAX, 0, name) } else { split(&v, r, name) };
            inp.family = format!("{}_{}", name, if is_f64 { "f64" } else { "f32" });
            inp
        },
        3 => {
            // long: 20 .. 2000 digits (rarely 10^5)
            let n = if rare_huge && r.chance(1, 200) {
                20_000 + r.usize_below(80_000)
            } else {
                match r.below(4) {
                    0 => 20 + r.usize_below(20),
                    1 => *r.pick(&[20usize, 38, 39, 57, 113, 114, 115, 768, 769, 770, 771]),
                    _ => 20 + r.usize_below(if mix == Mix::Short { 120 } else { 1980 }),
                }
            };
            let mut digits = random_digits(r, n);
            // sticky structure: zero out a long middle stretch so that only a far digit decides
            if r.chance(1, 2) && n > 40 {
                let a = 19 + r.usize_below(n - 38);
                for c in digits[a..n - 1].iter_mut() {
                    *c = b'0';
                }
            }
            let q = match r.below(3) {
                0 => r.range(-340, 300) - n as i64,
                1 => -(n as i64) + r.range(-30, 30),
                _ => r.range(-400, 400),
            };
            split(&Dec { digits, dec_exp: q }, r, "long")
        },
        7 => {
            // structured mantissa: a near-halfway integer X * 10^q (q >= 135, so the
            // big-integer path multiplies by 5^135 with X as the multi-limb factor) whose
            // 64-bit limbs carry adversarial patterns (all-zero, all-ones, one)
            let ef = 1500 + r.below(546);
            let bits = (ef << 52) | (draw_float_bits(r, true) & ((1u64 << 52) - 1));
            let (m, e) = decompose(bits, true);
            let h = Nat::from_u128(2 * m as u128 + 1).shl((e - 1) as usize);
            let hdigits = ((e as f64 + 53.0) * 0.30103) as i64;
            let qmax = (hdigits - 30).clamp(135, 290);
            let q = r.range(135, qmax) as u32;
            let x = h.div_pow10(q);
            let mut limbs = x.to_limbs64();
            let n = limbs.len();
            if n > 3 {
                let k = 1 + r.usize_below(3);
                for _ in 0..k {
                    let i = r.usize_below(n - 2);
                    limbs[i] = *r.pick(&[0u64, 0, 0, u64::MAX, 1, 1 << 63]);
                }
            }
            let digits = Nat::from_limbs64(&limbs).to_decimal();
            let mut inp = split(&Dec { digits, dec_exp: q as i64 }, r, "structured_mantissa_f64");
            if r.chance(1, 3) {
                // keep everything in the integer (exponent >= 135 relative to the last digit)
                let mut all = [inp.int.clone(), inp.frac.clone()].concat();
                let dec_exp = inp.exp as i64 - inp.frac.len() as i64;
                let nz = all.iter().position(|&c| c != b'0').unwrap_or(all.len());
                all.drain(..nz);
                inp = split_at(&Dec { digits: all, dec_exp }, usize::MAX, 0, "structured_mantissa_f64");
            }
            inp
        },
        8 => limb_boundary(r, mix == Mix::Short),
        9 => lemire_inconclusive(r),
        4 => {
            // extremes
            let n = 1 + r.usize_below(40);
            let digits = random_digits(r, n);
            let e = *r.pick(&[i32::MAX, i32::MIN, i32::MAX - 1, i32::MIN + 1, 1 << 30, -(1 << 30), 400, -400, 309, -343]);
            let mut inp = split(&Dec { digits, dec_exp: 0 }, r, "extreme_exponent");
            inp.exp = e;
            if r.chance(1, 3) {
                // a long run of leading fraction zeros that compensates a big exponent
                let z = 1 + r.usize_below(3000);
                let mut frac = vec![b'0'; z];
                frac.extend_from_slice(&inp.int);
                frac.extend_from_slice(&inp.frac);
                while frac.last() == Some(&b'0') {
                    frac.pop();
                }
                inp = Input { int: vec![], frac, exp: z as i32 + r.range(-30, 30) as i32, family: "compensated_zeros".into() };
            }
            inp
        },
        _ => {
            // zero / empty / tiny
            match r.below(4) {
                0 => Input { int: vec![], frac: vec![], exp: r.range(-10, 10) as i32, family: "empty".into() },
                1 => Input { int: vec![r.nonzero_digit()], frac: vec![], exp: 0, family: "one_digit".into() },
                2 => Input { int: vec![], frac: vec![r.nonzero_digit()], exp: r.range(-400, 400) as i32, family: "one_frac_digit".into() },
                _ => {
                    let z = r.usize_below(30);
                    let mut frac = vec![b'0'; z];
                    frac.push(r.nonzero_digit());
                    Input { int: vec![], frac, exp: r.range(-5, 5) as i32, family: "leading_frac_zeros".into() }
                },
            }
        },
    }
}

/// A variant of `base` that shares structure with it (to expose state that
/// leaks between calls: caches keyed on too little, stale scratch, ...).
pub fn related(base: &Input, r: &mut Rng) -> Input {
    let mut all: Vec<u8> = base.int.clone();
    all.extend_from_slice(&base.frac);
    let dec_exp = base.exp as i64 - base.frac.len() as i64;
    match r.below(6) {
        0 => {
            // same value, different split
            let lead = all.iter().position(|&c| c != b'0').unwrap_or(all.len());
            let d = Dec { digits: all[lead..].to_vec(), dec_exp };
            let mut i = split(&d, r, "related_resplit");
            i.family = format!("{}+resplit", base.family);
            i
        },
        1 => {
            // same digits, different exponent
            let mut i = base.clone();
            i.exp = clamp_i32(base.exp as i64 + *r.pick(&[1i64, -1, 2, -2, 10, -10, 100, -100]));
            i.family = format!("{}+exp", base.family);
            i
        },
        2 => {
            // same first 19 digits, different tail
            let mut i = base.clone();
            if let Some(c) = i.frac.last_mut() {
                *c = if *c == b'9' { b'1' } else { *c + 1 };
            } else if let Some(c) = i.int.last_mut() {
                *c = if *c == b'9' { b'1' } else { *c + 1 };
            }
            i.family = format!("{}+last_digit", base.family);
            i
        },
        3 => {
            // longer: append a far non-zero digit
            let mut i = base.clone();
            let t = 1 + r.usize_below(40);
            i.frac.extend(std::iter::repeat(b'0').take(t - 1));
            i.frac.push(r.nonzero_digit());
            i.family = format!("{}+tail", base.family);
            i
        },
        4 => {
            // shorter: drop the last digit
            let mut i = base.clone();
            if i.frac.len() > 1 {
                i.frac.pop();
                while i.frac.last() == Some(&b'0') {
                    i.frac.pop();
                }
            }
            i.family = format!("{}+shorter", base.family);
            i
        },
        _ => base.clone(),
    }
}

/// Is this a valid request (the quantifier of C15/C16)?
pub fn is_valid(i: &Input) -> bool {
    i.int.iter().chain(i.frac.iter()).all(|c| c.is_ascii_digit())
        && i.int.first() != Some(&b'0')
        && i.frac.last() != Some(&b'0')
}
