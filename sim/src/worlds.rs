//! The five build configurations of the crate under test, linked side by
//! side (shadow manifests, see /verif/shadow) and exposed behind one trait so
//! that every engine is written once and instantiated per configuration.
//!
//! Everything here is *real code* of /repo's working tree; this module only
//! forwards.

use std::cmp::Ordering;
use std::ops::{Deref, DerefMut};

pub const N_WORLDS: usize = 5;
pub const WORLD_NAMES: [&str; N_WORLDS] = ["default", "compact", "alloc", "compact_alloc", "nostd_compact"];

/// Which stage of the parser decided a request (coverage accounting only).
#[derive(Clone, Copy, Debug, PartialEq, Eq, Hash, PartialOrd, Ord)]
pub enum Tier {
    Fast = 0,
    Moderate = 1,
    ModerateManyDigits = 2,
    SlowPositive = 3,
    SlowNegative = 4,
    SlowPositiveTruncated = 5,
    SlowNegativeTruncated = 6,
}
pub const TIER_NAMES: [&str; 7] =
    ["fast", "moderate", "moderate_many", "slow_pos", "slow_neg", "slow_pos_trunc", "slow_neg_trunc"];

impl Tier {
    pub fn is_slow(self) -> bool {
        self as usize >= 3
    }
}

/// The safe API of the crate's vector type (stack or heap back-end).
pub trait VecApi: Clone + Deref<Target = [u64]> + DerefMut + PartialEq + Ord {
    fn v_new() -> Self;
    fn v_try_from(x: &[u64]) -> Option<Self>;
    fn v_from_u64(x: u64) -> Self;
    fn v_len(&self) -> usize;
    fn v_is_empty(&self) -> bool;
    fn v_capacity(&self) -> usize;
    fn v_try_push(&mut self, x: u64) -> Option<()>;
    fn v_pop(&mut self) -> Option<u64>;
    fn v_try_extend(&mut self, x: &[u64]) -> Option<()>;
    fn v_try_resize(&mut self, len: usize, x: u64) -> Option<()>;
    fn v_hi64(&self) -> (u64, bool);
    fn v_normalize(&mut self);
    fn v_is_normalized(&self) -> bool;
    fn v_add_small(&mut self, y: u64) -> Option<()>;
    fn v_mul_small(&mut self, y: u64) -> Option<()>;
    /// `*self *= rhs` (panics when the product does not fit).
    fn v_mul_assign(&mut self, rhs: &[u64]);
}

pub trait World: 'static {
    const ID: usize;
    const ALLOC: bool;
    const COMPACT: bool;
    const STD: bool;
    type V: VecApi;

    fn name() -> &'static str {
        WORLD_NAMES[Self::ID]
    }

    fn parse_f64<'a, A, B>(a: A, b: B, e: i32) -> u64
    where
        A: Iterator<Item = &'a u8> + Clone,
        B: Iterator<Item = &'a u8> + Clone;
    fn parse_f32<'a, A, B>(a: A, b: B, e: i32) -> u64
    where
        A: Iterator<Item = &'a u8> + Clone,
        B: Iterator<Item = &'a u8> + Clone;

    /// Tier accounting (always on plain slices: the tier is a function of the bytes).
    fn tier(is_f64: bool, a: &[u8], b: &[u8], e: i32) -> Tier;
    /// For a request that reaches the big-integer tier: the decimal exponent relative
    /// to the parsed digits (coverage accounting only).
    fn slow_exponent(is_f64: bool, a: &[u8], b: &[u8], e: i32) -> i32;

    fn set_poison(seed: Option<u64>);
    fn set_poison_mode(mode: u8);
    /// never-written stack-vector slots that became visible since the last call (hook)
    fn take_exposed_slots() -> u64;
    fn poison_words() -> u64;
    fn set_sched_hook(hook: Option<fn(u32)>);

    // bigint free functions
    fn small_add(x: &mut Self::V, y: u64) -> Option<()>;
    fn small_add_from(x: &mut Self::V, y: u64, start: usize) -> Option<()>;
    fn small_mul(x: &mut Self::V, y: u64) -> Option<()>;
    fn large_add(x: &mut Self::V, y: &[u64]) -> Option<()>;
    fn large_add_from(x: &mut Self::V, y: &[u64], start: usize) -> Option<()>;
    fn long_mul(x: &[u64], y: &[u64]) -> Option<Self::V>;
    fn large_mul(x: &mut Self::V, y: &[u64]) -> Option<()>;
    fn pow5(x: &mut Self::V, exp: u32) -> Option<()>;
    fn shl(x: &mut Self::V, n: usize) -> Option<()>;
    fn shl_bits(x: &mut Self::V, n: usize) -> Option<()>;
    fn shl_limbs(x: &mut Self::V, n: usize) -> Option<()>;
    fn normalize(x: &mut Self::V);
    fn is_normalized(x: &[u64]) -> bool;
    fn compare(x: &[u64], y: &[u64]) -> Ordering;
    fn hi64(x: &[u64]) -> (u64, bool);
    fn bit_length(x: &[u64]) -> u32;
    fn leading_zeros(x: &[u64]) -> u32;
    fn from_u64(x: u64) -> Self::V;
    // Bigint wrapper
    fn bigint_pow(x: &mut Self::V, base: u32, exp: u32) -> Option<()>;
    fn bigint_mul_assign(x: &mut Self::V, y: &Self::V);
    fn bigint_hi64(x: &Self::V) -> (u64, bool);
    fn bigint_bit_length(x: &Self::V) -> u32;
    fn bigint_from_u64(x: u64) -> Self::V;
}

macro_rules! world {
    ($ty:ident, $krate:ident, $id:expr, alloc = $alloc:expr, compact = $compact:expr, std = $std:expr) => {
        pub struct $ty;

        const _: () = assert!($krate::bigint::LIMB_BITS == 64, "simulator assumes 64-bit limbs");
        const _: () = assert!($krate::bigint::BIGINT_LIMBS == 62);

        impl VecApi for $krate::bigint::VecType {
            #[inline]
            fn v_new() -> Self {
                <$krate::bigint::VecType>::new()
            }
            #[inline]
            fn v_try_from(x: &[u64]) -> Option<Self> {
                <$krate::bigint::VecType>::try_from(x)
            }
            #[inline]
            fn v_from_u64(x: u64) -> Self {
                <$krate::bigint::VecType>::from_u64(x)
            }
            #[inline]
            fn v_len(&self) -> usize {
                self.len()
            }
            #[inline]
            fn v_is_empty(&self) -> bool {
                self.is_empty()
            }
            #[inline]
            fn v_capacity(&self) -> usize {
                self.capacity()
            }
            #[inline]
            fn v_try_push(&mut self, x: u64) -> Option<()> {
                self.try_push(x)
            }
            #[inline]
            fn v_pop(&mut self) -> Option<u64> {
                self.pop()
            }
            #[inline]
            fn v_try_extend(&mut self, x: &[u64]) -> Option<()> {
                self.try_extend(x)
            }
            #[inline]
            fn v_try_resize(&mut self, len: usize, x: u64) -> Option<()> {
                self.try_resize(len, x)
            }
            #[inline]
            fn v_hi64(&self) -> (u64, bool) {
                self.hi64()
            }
            #[inline]
            fn v_normalize(&mut self) {
                self.normalize()
            }
            #[inline]
            fn v_is_normalized(&self) -> bool {
                self.is_normalized()
            }
            #[inline]
            fn v_add_small(&mut self, y: u64) -> Option<()> {
                self.add_small(y)
            }
            #[inline]
            fn v_mul_small(&mut self, y: u64) -> Option<()> {
                self.mul_small(y)
            }
            #[inline]
            fn v_mul_assign(&mut self, rhs: &[u64]) {
                *self *= rhs;
            }
        }

        impl World for $ty {
            const ID: usize = $id;
            const ALLOC: bool = $alloc;
            const COMPACT: bool = $compact;
            const STD: bool = $std;
            type V = $krate::bigint::VecType;

            #[inline]
            fn parse_f64<'a, A, B>(a: A, b: B, e: i32) -> u64
            where
                A: Iterator<Item = &'a u8> + Clone,
                B: Iterator<Item = &'a u8> + Clone,
            {
                $krate::parse_float::<f64, _, _>(a, b, e).to_bits()
            }
            #[inline]
            fn parse_f32<'a, A, B>(a: A, b: B, e: i32) -> u64
            where
                A: Iterator<Item = &'a u8> + Clone,
                B: Iterator<Item = &'a u8> + Clone,
            {
                $krate::parse_float::<f32, _, _>(a, b, e).to_bits() as u64
            }

            fn tier(is_f64: bool, a: &[u8], b: &[u8], e: i32) -> Tier {
                fn go<F: $krate::Float>(a: &[u8], b: &[u8], e: i32) -> Tier {
                    let num = $krate::parse::parse_number_verif(a.iter(), b.iter(), e);
                    if num.try_fast_path::<F>().is_some() {
                        return Tier::Fast;
                    }
                    let fp = $krate::parse::moderate_path::<F>(&num);
                    if fp.exp >= 0 {
                        return if num.many_digits { Tier::ModerateManyDigits } else { Tier::Moderate };
                    }
                    let sci = $krate::slow::scientific_exponent(&num);
                    let (_, digits) = $krate::slow::parse_mantissa(a.iter(), b.iter(), F::MAX_DIGITS);
                    let exponent = sci + 1 - digits as i32;
                    // total significant digits (after leading fraction zeros when the integer is empty)
                    let mut total = a.len() + b.len();
                    if a.is_empty() {
                        total -= b.iter().take_while(|&&c| c == b'0').count();
                    }
                    let trunc = total > F::MAX_DIGITS;
                    match (exponent >= 0, trunc) {
                        (true, false) => Tier::SlowPositive,
                        (false, false) => Tier::SlowNegative,
                        (true, true) => Tier::SlowPositiveTruncated,
                        (false, true) => Tier::SlowNegativeTruncated,
                    }
                }
                if is_f64 {
                    go::<f64>(a, b, e)
                } else {
                    go::<f32>(a, b, e)
                }
            }

            fn slow_exponent(is_f64: bool, a: &[u8], b: &[u8], e: i32) -> i32 {
                let num = $krate::parse::parse_number_verif(a.iter(), b.iter(), e);
                let sci = $krate::slow::scientific_exponent(&num);
                let max = if is_f64 { <f64 as $krate::Float>::MAX_DIGITS } else { <f32 as $krate::Float>::MAX_DIGITS };
                let (_, digits) = $krate::slow::parse_mantissa(a.iter(), b.iter(), max);
                sci + 1 - digits as i32
            }

            fn set_poison(seed: Option<u64>) {
                $krate::verif::set_poison(seed)
            }
            fn set_poison_mode(mode: u8) {
                $krate::verif::set_poison_mode(mode)
            }
            fn take_exposed_slots() -> u64 {
                $krate::verif::take_exposed_slots()
            }
            fn poison_words() -> u64 {
                $krate::verif::words_drawn()
            }
            fn set_sched_hook(hook: Option<fn(u32)>) {
                $krate::verif::set_sched_hook(hook)
            }

            #[inline]
            fn small_add(x: &mut Self::V, y: u64) -> Option<()> {
                $krate::bigint::small_add(x, y)
            }
            #[inline]
            fn small_add_from(x: &mut Self::V, y: u64, start: usize) -> Option<()> {
                $krate::bigint::small_add_from(x, y, start)
            }
            #[inline]
            fn small_mul(x: &mut Self::V, y: u64) -> Option<()> {
                $krate::bigint::small_mul(x, y)
            }
            #[inline]
            fn large_add(x: &mut Self::V, y: &[u64]) -> Option<()> {
                $krate::bigint::large_add(x, y)
            }
            #[inline]
            fn large_add_from(x: &mut Self::V, y: &[u64], start: usize) -> Option<()> {
                $krate::bigint::large_add_from(x, y, start)
            }
            #[inline]
            fn long_mul(x: &[u64], y: &[u64]) -> Option<Self::V> {
                $krate::bigint::long_mul(x, y)
            }
            #[inline]
            fn large_mul(x: &mut Self::V, y: &[u64]) -> Option<()> {
                $krate::bigint::large_mul(x, y)
            }
            #[inline]
            fn pow5(x: &mut Self::V, exp: u32) -> Option<()> {
                $krate::bigint::pow(x, exp)
            }
            #[inline]
            fn shl(x: &mut Self::V, n: usize) -> Option<()> {
                $krate::bigint::shl(x, n)
            }
            #[inline]
            fn shl_bits(x: &mut Self::V, n: usize) -> Option<()> {
                $krate::bigint::shl_bits(x, n)
            }
            #[inline]
            fn shl_limbs(x: &mut Self::V, n: usize) -> Option<()> {
                $krate::bigint::shl_limbs(x, n)
            }
            #[inline]
            fn normalize(x: &mut Self::V) {
                $krate::bigint::normalize(x)
            }
            #[inline]
            fn is_normalized(x: &[u64]) -> bool {
                $krate::bigint::is_normalized(x)
            }
            #[inline]
            fn compare(x: &[u64], y: &[u64]) -> Ordering {
                $krate::bigint::compare(x, y)
            }
            #[inline]
            fn hi64(x: &[u64]) -> (u64, bool) {
                $krate::bigint::hi64(x)
            }
            #[inline]
            fn bit_length(x: &[u64]) -> u32 {
                $krate::bigint::bit_length(x)
            }
            #[inline]
            fn leading_zeros(x: &[u64]) -> u32 {
                $krate::bigint::leading_zeros(x)
            }
            #[inline]
            fn from_u64(x: u64) -> Self::V {
                $krate::bigint::from_u64(x)
            }
            fn bigint_pow(x: &mut Self::V, base: u32, exp: u32) -> Option<()> {
                let mut b = $krate::bigint::Bigint { data: core::mem::replace(x, <Self::V>::v_new()) };
                let r = b.pow(base, exp);
                *x = b.data;
                r
            }
            fn bigint_mul_assign(x: &mut Self::V, y: &Self::V) {
                // (move the storage into the wrapper and back: a clone would shrink the heap capacity)
                let mut b = $krate::bigint::Bigint { data: core::mem::replace(x, <Self::V>::v_new()) };
                let rhs = $krate::bigint::Bigint { data: y.clone() };
                let r = std::panic::catch_unwind(std::panic::AssertUnwindSafe(|| b *= &rhs));
                *x = b.data;
                if let Err(e) = r {
                    std::panic::resume_unwind(e);
                }
            }
            fn bigint_hi64(x: &Self::V) -> (u64, bool) {
                let b = $krate::bigint::Bigint { data: x.clone() };
                b.hi64()
            }
            fn bigint_bit_length(x: &Self::V) -> u32 {
                let b = $krate::bigint::Bigint { data: x.clone() };
                b.bit_length()
            }
            fn bigint_from_u64(x: u64) -> Self::V {
                $krate::bigint::Bigint::from_u64(x).data
            }
        }
    };
}

world!(WDefault, ml_default, 0, alloc = false, compact = false, std = true);
world!(WCompact, ml_compact, 1, alloc = false, compact = true, std = true);
world!(WAlloc, ml_alloc, 2, alloc = true, compact = false, std = true);
world!(WCompactAlloc, ml_compact_alloc, 3, alloc = true, compact = true, std = true);
world!(WNostdCompact, ml_nostd_compact, 4, alloc = false, compact = true, std = false);

/// Run `$body` with the type alias `$w` bound to the world of index `$id`.
#[macro_export]
macro_rules! with_world {
    ($id:expr, $w:ident, $body:expr) => {
        match $id {
            0 => {
                type $w = $crate::worlds::WDefault;
                $body
            },
            1 => {
                type $w = $crate::worlds::WCompact;
                $body
            },
            2 => {
                type $w = $crate::worlds::WAlloc;
                $body
            },
            3 => {
                type $w = $crate::worlds::WCompactAlloc;
                $body
            },
            4 => {
                type $w = $crate::worlds::WNostdCompact;
                $body
            },
            other => panic!("no such world {}", other),
        }
    };
}

/// Garbage shape of every linked configuration (0 mixed, 1 all-ones, 2 all-zero).
pub fn set_poison_mode_all(mode: u8) {
    WDefault::set_poison_mode(mode);
    WCompact::set_poison_mode(mode);
    WAlloc::set_poison_mode(mode);
    WCompactAlloc::set_poison_mode(mode);
    WNostdCompact::set_poison_mode(mode);
}

/// Switch the poison stream of every linked configuration.
pub fn set_poison_all(seed: Option<u64>) {
    WDefault::set_poison(seed);
    WCompact::set_poison(seed.map(|s| s ^ 0x1111));
    WAlloc::set_poison(seed.map(|s| s ^ 0x2222));
    WCompactAlloc::set_poison(seed.map(|s| s ^ 0x3333));
    WNostdCompact::set_poison(seed.map(|s| s ^ 0x4444));
}

/// Install the library-side scheduling-point callback in every linked configuration.
pub fn set_sched_hook_all(hook: Option<fn(u32)>) {
    WDefault::set_sched_hook(hook);
    WCompact::set_sched_hook(hook);
    WAlloc::set_sched_hook(hook);
    WCompactAlloc::set_sched_hook(hook);
    WNostdCompact::set_sched_hook(hook);
}
