//! Shared plumbing: panic capture, violations, statistics, replay files,
//! generic greedy minimiser.

use serde::{Deserialize, Serialize};
use std::cell::RefCell;
use std::collections::{BTreeMap, BTreeSet};
use std::panic::{self, AssertUnwindSafe};

// ---------------------------------------------------------------------------
// panic capture
// ---------------------------------------------------------------------------

thread_local! {
    static LAST_PANIC: RefCell<Option<String>> = const { RefCell::new(None) };
    static CATCH_DEPTH: std::cell::Cell<u32> = const { std::cell::Cell::new(0) };
}

fn normalise_site(file: &str, line: u32) -> String {
    let f = if let Some(i) = file.rfind("/src/") {
        // keep "src/xyz.rs" for crate files, a longer tail for std
        if let Some(j) = file.find("library/") {
            &file[j..]
        } else {
            &file[i + 1..]
        }
    } else {
        file
    };
    format!("{}:{}", f, line)
}

/// Install the silent, site-recording panic hook (after `sched::warm_up`, so
/// that it replaces shuttle's printing hook).
pub fn install_panic_hook() {
    panic::set_hook(Box::new(|info| {
        let site = match info.location() {
            Some(l) => normalise_site(l.file(), l.line()),
            None => "unknown".to_string(),
        };
        // a panic outside `catch` is a harness bug, and a panic that cannot unwind
        // (core's `unsafe precondition(s) violated` checks) is about to abort: never silent
        if CATCH_DEPTH.with(|d| d.get()) == 0 || info.payload_as_str().map(|m| m.contains("unsafe precondition")).unwrap_or(false) || std::env::var_os("SIM_PANIC_VERBOSE").is_some() {
            eprintln!("[sim] panic at {}: {}", site, info);
        }
        LAST_PANIC.with(|p| *p.borrow_mut() = Some(site));
    }));
}

/// Run `f`, turning an unwinding panic into `Err(site)`.
pub fn catch<R>(f: impl FnOnce() -> R) -> Result<R, String> {
    CATCH_DEPTH.with(|d| d.set(d.get() + 1));
    let r = panic::catch_unwind(AssertUnwindSafe(f));
    CATCH_DEPTH.with(|d| d.set(d.get().saturating_sub(1)));
    match r {
        Ok(r) => Ok(r),
        Err(_) => Err(LAST_PANIC.with(|p| p.borrow_mut().take()).unwrap_or_else(|| "unknown".into())),
    }
}

// ---------------------------------------------------------------------------
// violations, stats
// ---------------------------------------------------------------------------

#[derive(Clone, Debug, Serialize, Deserialize, PartialEq, Eq)]
pub struct Violation {
    /// oracle clause (stable under minimisation), e.g. "C13/contents" or "C16/O1"
    pub class: String,
    /// human-readable specifics (not part of the class)
    pub detail: String,
}

impl Violation {
    pub fn new(class: impl Into<String>, detail: impl Into<String>) -> Violation {
        Violation { class: class.into(), detail: detail.into() }
    }
}

#[derive(Clone, Debug, Default, Serialize, Deserialize)]
pub struct Stats {
    pub counters: BTreeMap<String, u64>,
    /// keys of distinct non-trivial cases (meaning defined per engine)
    pub distinct: BTreeSet<u64>,
    /// schedule / history fingerprints
    pub fingerprints: BTreeSet<u64>,
    pub samples: Vec<serde_json::Value>,
    /// (run index, digest) of every run, for the determinism self-test
    pub digests: Vec<(u64, u64)>,
    pub violations: Vec<String>,
    pub notes: BTreeSet<String>,
}

impl Stats {
    #[inline]
    pub fn inc(&mut self, k: &str) {
        self.add(k, 1);
    }
    #[inline]
    pub fn add(&mut self, k: &str, n: u64) {
        if let Some(v) = self.counters.get_mut(k) {
            *v += n;
        } else {
            self.counters.insert(k.to_string(), n);
        }
    }
    pub fn max(&mut self, k: &str, n: u64) {
        let e = self.counters.entry(k.to_string()).or_insert(0);
        if n > *e {
            *e = n;
        }
    }
    pub fn merge(&mut self, o: Stats) {
        for (k, v) in o.counters {
            if k.starts_with("max.") {
                self.max(&k, v);
            } else {
                self.add(&k, v);
            }
        }
        self.distinct.extend(o.distinct);
        self.fingerprints.extend(o.fingerprints);
        for s in o.samples {
            if self.samples.len() < 6 {
                self.samples.push(s);
            }
        }
        self.digests.extend(o.digests);
        self.violations.extend(o.violations);
        self.notes.extend(o.notes);
    }
}

// ---------------------------------------------------------------------------
// replay files
// ---------------------------------------------------------------------------

#[derive(Clone, Debug, Serialize, Deserialize)]
pub enum Case {
    Vec(crate::hist_vec::VecCase),
    Big(crate::hist_big::BigCase),
    Par(crate::par::ParCase),
}

#[derive(Clone, Debug, Serialize, Deserialize)]
pub struct ReplayFile {
    pub property: String,
    /// "native" | "miri" | "asan"
    pub engine: String,
    /// "release" | "dbg"
    pub profile: String,
    pub verif_seed: u64,
    pub run_index: u64,
    pub run_seed: u64,
    pub class: String,
    pub detail: String,
    pub minimised: bool,
    pub original_ops: usize,
    pub minimised_ops: usize,
    /// engine B: the MIRIFLAGS of the worker (Miri seed and pre-emption rate are part of the execution)
    #[serde(default)]
    pub engine_flags: String,
    pub case: Case,
}

// ---------------------------------------------------------------------------
// minimisation
// ---------------------------------------------------------------------------

pub trait Shrink: Clone {
    /// Strictly simpler variants, most aggressive first.
    fn candidates(&self) -> Vec<Self>;
    fn size(&self) -> usize;
}

/// Greedy minimisation: keep any candidate on which `test` still reports the
/// same violation class; stop at a fixpoint or when the budget is spent.
pub fn minimise<C: Shrink>(mut c: C, class: &str, test: &mut dyn FnMut(&C) -> Option<String>, mut budget: usize) -> C {
    loop {
        let mut progressed = false;
        for cand in c.candidates() {
            if budget == 0 {
                return c;
            }
            budget -= 1;
            if test(&cand).as_deref() == Some(class) {
                c = cand;
                progressed = true;
                break;
            }
        }
        if !progressed {
            return c;
        }
    }
}

/// Candidate lists for "remove a chunk of a sequence": halves, quarters, …, singles.
pub fn removal_ranges(n: usize) -> Vec<(usize, usize)> {
    let mut out = Vec::new();
    if n == 0 {
        return out;
    }
    let mut chunk = n;
    while chunk >= 1 {
        let mut start = 0;
        while start < n {
            let end = (start + chunk).min(n);
            if !(start == 0 && end == n && n > 1 && chunk == n) || n == 1 {
                out.push((start, end));
            }
            start = end;
        }
        if chunk == 1 {
            break;
        }
        chunk = (chunk + 1) / 2;
    }
    out
}

pub fn hex(b: &[u8]) -> String {
    let mut s = String::with_capacity(b.len() * 2);
    for &c in b {
        s.push_str(&format!("{:02x}", c));
    }
    s
}
