//! Digit-stream seam (S1): every way the simulator delivers the *same byte
//! sequence* to `parse_float`.
//!
//! * `SimIter` — the simulator's own `Iterator<Item = &u8> + Clone`: fused,
//!   yields the same bytes on every fresh clone (that is "well-behaved"), but
//!   layout, clone relocation, `size_hint`, specialisations and scheduling
//!   points are per-run knobs.
//! * a fixed list of real `core`/`alloc` iterator types (slice::Iter, Chain,
//!   Filter, Rev, Skip+Take, Peekable, StepBy, FlatMap, Map<Range>, VecDeque,
//!   LinkedList, Chain<SimIter,SimIter>), because std's own specialisations
//!   are part of what users pass.

use crate::rng::Rng;
use crate::sched::{self, OP_CLONE, OP_COUNT, OP_HINT, OP_NEXT, OP_OTHER};
use serde::{Deserialize, Serialize};
use std::collections::{LinkedList, VecDeque};

#[derive(Clone, Copy, Debug, Serialize, Deserialize, PartialEq, Eq, Hash, PartialOrd, Ord)]
pub enum Kind {
    Slice = 0,
    Chain = 1,
    Filter = 2,
    Rev = 3,
    SkipTake = 4,
    Peekable = 5,
    StepBy = 6,
    FlatMap = 7,
    MapIndex = 8,
    Deque = 9,
    List = 10,
    Sim = 11,
    ChainSim = 12,
    /// `text.iter().map_while(is_digit)` over a longer text: a real std adaptor that is NOT fused
    MapWhile = 13,
}
pub const N_KINDS: usize = 14;
pub const KIND_NAMES: [&str; N_KINDS] = [
    "slice", "chain", "filter", "rev", "skip_take", "peekable", "step_by", "flat_map", "map_index", "vecdeque",
    "linked_list", "sim", "chain_sim", "map_while",
];
pub const ALL_KINDS: [Kind; N_KINDS] = [
    Kind::Slice,
    Kind::Chain,
    Kind::Filter,
    Kind::Rev,
    Kind::SkipTake,
    Kind::Peekable,
    Kind::StepBy,
    Kind::FlatMap,
    Kind::MapIndex,
    Kind::Deque,
    Kind::List,
    Kind::Sim,
    Kind::ChainSim,
    Kind::MapWhile,
];

#[derive(Clone, Copy, Debug, Serialize, Deserialize, PartialEq, Eq, Hash)]
pub enum Layout {
    Contiguous,
    Segments(u8),
    Cells,
    Misaligned(u8),
}

#[derive(Clone, Copy, Debug, Serialize, Deserialize, PartialEq, Eq, Hash)]
pub enum Hint {
    Exact,
    Unknown,
    LowerOnly,
    UpperOnly,
}

#[derive(Clone, Copy, Debug, Serialize, Deserialize, PartialEq, Eq, Hash)]
pub struct Knobs {
    pub layout: Layout,
    pub relocate: bool,
    pub hint: Hint,
    pub spec_count: bool,
    pub spec_nth: bool,
    pub spec_fold: bool,
    pub spec_last: bool,
    /// after its first `None` the iterator yields further (junk) bytes when polled again: the
    /// Iterator contract leaves behaviour after `None` open (cf. `MapWhile`, `from_fn`)
    #[serde(default)]
    pub unfused: bool,
}

impl Knobs {
    pub const PLAIN: Knobs = Knobs {
        layout: Layout::Contiguous,
        relocate: false,
        hint: Hint::Exact,
        spec_count: true,
        spec_nth: true,
        spec_fold: false,
        spec_last: false,
        unfused: false,
    };
}

#[derive(Clone, Debug, Serialize, Deserialize, PartialEq, Eq, Hash)]
pub struct ShapeSpec {
    pub kind: Kind,
    /// split point / offset / junk seed, interpreted per kind
    pub a: u32,
    pub knobs: Knobs,
}

impl ShapeSpec {
    pub fn slice() -> ShapeSpec {
        ShapeSpec { kind: Kind::Slice, a: 0, knobs: Knobs::PLAIN }
    }

    pub fn draw_knobs(r: &mut Rng, len: usize) -> Knobs {
        let layout = match r.below(8) {
            0 | 1 => Layout::Contiguous,
            2 | 3 | 4 => Layout::Segments(2 + r.below(6) as u8),
            5 => {
                if len <= 2000 {
                    Layout::Cells
                } else {
                    Layout::Segments(7)
                }
            },
            _ => Layout::Misaligned(1 + r.below(7) as u8),
        };
        Knobs {
            layout,
            relocate: r.chance(1, 2),
            hint: *r.pick(&[Hint::Exact, Hint::Unknown, Hint::LowerOnly, Hint::UpperOnly]),
            spec_count: r.chance(1, 2),
            spec_nth: r.chance(1, 2),
            spec_fold: r.chance(1, 3),
            spec_last: r.chance(1, 3),
            unfused: r.chance(1, 5),
        }
    }

    pub fn draw(r: &mut Rng, kind: Kind, len: usize) -> ShapeSpec {
        ShapeSpec { kind, a: r.next_u64() as u32, knobs: Self::draw_knobs(r, len) }
    }
}

/// The pairs (integer shape, fraction shape) the simulator instantiates:
/// (K,K), (Slice,K), (K,Slice), (Sim,K), (K,Sim).
pub fn pair_allowed(i: Kind, f: Kind) -> bool {
    i == f || i == Kind::Slice || f == Kind::Slice || i == Kind::Sim || f == Kind::Sim
}

// ---------------------------------------------------------------------------
// SimIter
// ---------------------------------------------------------------------------

const GUARD: u8 = 0xEE;

struct CopyBuf {
    segs: Vec<Box<[u8]>>,
    /// logical position -> (segment, offset)
    index: Vec<(u32, u32)>,
}

impl CopyBuf {
    fn build(bytes: &[u8], layout: Layout, r: &mut Rng) -> CopyBuf {
        let n = bytes.len();
        let mut cuts: Vec<usize> = Vec::new();
        let mut lead = 1 + r.usize_below(8);
        match layout {
            Layout::Contiguous => {},
            Layout::Misaligned(m) => lead = m as usize,
            Layout::Segments(k) => {
                for _ in 1..k {
                    // bias cuts to where the parser changes mode
                    let c = match r.below(4) {
                        0 => *r.pick(&[1usize, 18, 19, 20, 38, 113, 114, 768, 769]),
                        _ => r.usize_below(n + 1),
                    };
                    if c > 0 && c < n {
                        cuts.push(c);
                    }
                }
                cuts.sort_unstable();
                cuts.dedup();
            },
            Layout::Cells => {
                cuts = (1..n).collect();
            },
        }
        let mut segs = Vec::new();
        let mut index = Vec::with_capacity(n);
        let mut start = 0usize;
        let mut bounds = cuts.clone();
        bounds.push(n);
        for (si, &end) in bounds.iter().enumerate() {
            let g0 = if si == 0 { lead } else { 1 + r.usize_below(4) };
            let g1 = 1 + r.usize_below(4);
            let mut v = Vec::with_capacity(g0 + (end - start) + g1);
            v.extend(std::iter::repeat(GUARD).take(g0));
            v.extend_from_slice(&bytes[start..end]);
            v.extend(std::iter::repeat(GUARD).take(g1));
            for off in 0..(end - start) {
                index.push((si as u32, (g0 + off) as u32));
            }
            segs.push(v.into_boxed_slice());
            start = end;
        }
        CopyBuf { segs, index }
    }

    #[inline]
    fn at(&self, pos: usize) -> &u8 {
        let (s, o) = self.index[pos];
        &self.segs[s as usize][o as usize]
    }
}

/// Backing storage of a `SimIter`: one or three independent copies of the
/// same bytes, each with its own layout instance.
pub struct Arena {
    copies: Vec<CopyBuf>,
    len: usize,
}

impl Arena {
    pub fn build(bytes: &[u8], knobs: &Knobs, seed: u64) -> Arena {
        let mut r = Rng::new(seed ^ 0xA7E4A);
        let ncopies = if knobs.relocate { 3 } else { 1 };
        let copies = (0..ncopies).map(|_| CopyBuf::build(bytes, knobs.layout, &mut r)).collect();
        Arena { copies, len: bytes.len() }
    }
}

#[derive(Clone, Copy)]
struct K {
    relocate: bool,
    hint: Hint,
    spec_count: bool,
    spec_nth: bool,
    spec_fold: bool,
    spec_last: bool,
    unfused: bool,
}

static JUNK_AFTER_NONE: [u8; 8] = *b"73190246";

pub struct SimIter<'a> {
    arena: &'a Arena,
    copy: usize,
    pos: usize,
    end: usize,
    k: K,
    calls: u64,
    /// number of `None`s returned so far (unfused iterators resume after the first)
    nones: u32,
}

#[inline]
fn is_key(pos: usize, end: usize) -> bool {
    matches!(pos, 0 | 18 | 19 | 20 | 113 | 114 | 768 | 769) || pos + 1 >= end
}

impl<'a> SimIter<'a> {
    pub fn new(arena: &'a Arena, knobs: &Knobs, start: usize, end: usize) -> SimIter<'a> {
        SimIter {
            arena,
            copy: 0,
            pos: start,
            end,
            k: K {
                relocate: knobs.relocate,
                hint: knobs.hint,
                spec_count: knobs.spec_count,
                spec_nth: knobs.spec_nth,
                spec_fold: knobs.spec_fold,
                spec_last: knobs.spec_last,
                unfused: knobs.unfused,
            },
            calls: 0,
            nones: 0,
        }
    }
}

impl<'a> Clone for SimIter<'a> {
    fn clone(&self) -> Self {
        sched::yield_point(OP_CLONE, self.pos as u64, true, self.calls);
        let copy = if self.k.relocate { (self.copy + 1) % self.arena.copies.len() } else { self.copy };
        SimIter { arena: self.arena, copy, pos: self.pos, end: self.end, k: self.k, calls: 0, nones: self.nones }
    }
}

impl<'a> Iterator for SimIter<'a> {
    type Item = &'a u8;

    #[inline]
    fn next(&mut self) -> Option<&'a u8> {
        self.calls += 1;
        sched::yield_point(OP_NEXT, self.pos as u64, is_key(self.pos, self.end), self.calls);
        if self.pos >= self.end {
            if self.k.unfused {
                // one None, then junk digits for three polls, then None again, ...
                self.nones += 1;
                return if self.nones % 4 == 1 { None } else { Some(&JUNK_AFTER_NONE[(self.nones % 8) as usize]) };
            }
            // fused: None forever
            return None;
        }
        let r = self.arena.copies[self.copy].at(self.pos);
        self.pos += 1;
        Some(r)
    }

    fn size_hint(&self) -> (usize, Option<usize>) {
        sched::yield_point(OP_HINT, self.pos as u64, false, self.calls);
        let rem = self.end - self.pos.min(self.end);
        match self.k.hint {
            Hint::Exact => (rem, Some(rem)),
            Hint::Unknown => (0, None),
            Hint::LowerOnly => (rem / 2, None),
            Hint::UpperOnly => (0, Some(rem.saturating_add(3))),
        }
    }

    fn count(mut self) -> usize {
        sched::yield_point(OP_COUNT, self.pos as u64, true, self.calls);
        if self.k.spec_count {
            self.end - self.pos.min(self.end)
        } else {
            let mut n = 0;
            while self.next().is_some() {
                n += 1;
            }
            n
        }
    }

    fn nth(&mut self, n: usize) -> Option<&'a u8> {
        if self.k.spec_nth {
            sched::yield_point(OP_OTHER, self.pos as u64, false, self.calls);
            self.pos = self.pos.saturating_add(n).min(self.end);
            self.next()
        } else {
            for _ in 0..n {
                self.next()?;
            }
            self.next()
        }
    }

    fn last(mut self) -> Option<&'a u8> {
        if self.k.spec_last {
            sched::yield_point(OP_OTHER, self.pos as u64, false, self.calls);
            if self.pos >= self.end {
                None
            } else {
                Some(self.arena.copies[self.copy].at(self.end - 1))
            }
        } else {
            let mut l = None;
            while let Some(x) = self.next() {
                l = Some(x);
            }
            l
        }
    }

    fn fold<B, F>(mut self, init: B, mut f: F) -> B
    where
        F: FnMut(B, &'a u8) -> B,
    {
        let mut acc = init;
        if self.k.spec_fold {
            sched::yield_point(OP_OTHER, self.pos as u64, true, self.calls);
            while self.pos < self.end {
                acc = f(acc, self.arena.copies[self.copy].at(self.pos));
                self.pos += 1;
            }
            acc
        } else {
            while let Some(x) = self.next() {
                acc = f(acc, x);
            }
            acc
        }
    }
}

// ---------------------------------------------------------------------------
// Stores and dispatch
// ---------------------------------------------------------------------------

/// Everything a shape needs to keep alive while the iterators exist.
pub struct Store {
    pub plain: Vec<u8>,
    /// transformed copy (separators / reversed / padded / doubled), per kind
    pub aux: Vec<u8>,
    pub chunks: Vec<Vec<u8>>,
    pub deque: VecDeque<u8>,
    pub list: LinkedList<u8>,
    pub arena: Arena,
    pub knobs: Knobs,
    pub split: usize,
    pub skip: usize,
    pub prepeek: bool,
}

impl Store {
    pub fn build(bytes: &[u8], spec: &ShapeSpec) -> Store {
        let n = bytes.len();
        let mut r = Rng::new(spec.a as u64 ^ 0x5AFE);
        let junk = |r: &mut Rng| -> u8 {
            if r.chance(1, 2) {
                b'0' + r.below(10) as u8
            } else {
                GUARD
            }
        };
        let mut st = Store {
            plain: Vec::new(),
            aux: Vec::new(),
            chunks: Vec::new(),
            deque: VecDeque::new(),
            list: LinkedList::new(),
            arena: Arena { copies: Vec::new(), len: 0 },
            knobs: spec.knobs,
            split: 0,
            skip: 0,
            prepeek: false,
        };
        match spec.kind {
            Kind::Slice | Kind::MapIndex => st.plain = bytes.to_vec(),
            Kind::MapWhile => {
                // the digits, a separator, and more digits that a poll after `None` would reach
                st.aux = bytes.to_vec();
                st.aux.push(*r.pick(&[b'.', b'e', b' ', b'_']));
                for _ in 0..(1 + r.usize_below(12)) {
                    let d = r.digit();
                    st.aux.push(d);
                }
            },
            Kind::Chain => {
                st.plain = bytes.to_vec();
                st.split = match spec.a % 4 {
                    0 => 0,
                    1 => n,
                    2 => n.min(19),
                    _ => r.usize_below(n + 1),
                };
            },
            Kind::Peekable => {
                st.plain = bytes.to_vec();
                st.prepeek = spec.a & 1 == 1;
            },
            Kind::Filter => {
                for &b in bytes {
                    while r.chance(1, 4) {
                        st.aux.push(b'_');
                    }
                    st.aux.push(b);
                }
                while r.chance(1, 2) {
                    st.aux.push(b'_');
                }
            },
            Kind::Rev => {
                st.aux = bytes.iter().rev().cloned().collect();
            },
            Kind::SkipTake => {
                st.split = n; // payload length
                st.skip = r.usize_below(9);
                for _ in 0..st.skip {
                    let j = junk(&mut r);
                    st.aux.push(j);
                }
                st.aux.extend_from_slice(bytes);
                for _ in 0..r.usize_below(9) {
                    let j = junk(&mut r);
                    st.aux.push(j);
                }
            },
            Kind::StepBy => {
                for &b in bytes {
                    st.aux.push(b);
                    let j = junk(&mut r);
                    st.aux.push(j);
                }
            },
            Kind::FlatMap => {
                let mut i = 0;
                while i < n {
                    if r.chance(1, 5) {
                        st.chunks.push(Vec::new());
                    }
                    let l = 1 + r.usize_below(24);
                    let e = (i + l).min(n);
                    st.chunks.push(bytes[i..e].to_vec());
                    i = e;
                }
                if r.chance(1, 3) {
                    st.chunks.push(Vec::new());
                }
            },
            Kind::Deque => {
                let pre = 1 + r.usize_below(n.max(1));
                let mut d = VecDeque::with_capacity(n.max(4));
                for _ in 0..pre.min(d.capacity().saturating_sub(1)) {
                    d.push_back(GUARD);
                }
                while d.pop_front().is_some() {}
                for &b in bytes {
                    d.push_back(b);
                }
                st.deque = d;
            },
            Kind::List => {
                st.list = bytes.iter().cloned().collect();
            },
            Kind::Sim => {
                st.arena = Arena::build(bytes, &spec.knobs, spec.a as u64);
            },
            Kind::ChainSim => {
                st.arena = Arena::build(bytes, &spec.knobs, spec.a as u64);
                st.split = match spec.a % 4 {
                    0 => 0,
                    1 => n,
                    2 => n.min(19),
                    _ => r.usize_below(n + 1),
                };
            },
        }
        st
    }
}

/// Generic consumer of a concrete (integer iterator, fraction iterator) pair.
pub trait PairVisitor {
    type Out;
    fn visit<'a, A, B>(self, a: A, b: B) -> Self::Out
    where
        A: Iterator<Item = &'a u8> + Clone,
        B: Iterator<Item = &'a u8> + Clone;
}

macro_rules! build {
    (Slice, $s:expr) => {
        $s.plain.iter()
    };
    (Chain, $s:expr) => {
        $s.plain[..$s.split].iter().chain($s.plain[$s.split..].iter())
    };
    (Filter, $s:expr) => {
        $s.aux.iter().filter(|c| **c != b'_')
    };
    (Rev, $s:expr) => {
        $s.aux.iter().rev()
    };
    (SkipTake, $s:expr) => {
        $s.aux.iter().skip($s.skip).take($s.split)
    };
    (Peekable, $s:expr) => {{
        let mut p = $s.plain.iter().peekable();
        if $s.prepeek {
            let _ = p.peek();
        }
        p
    }};
    (StepBy, $s:expr) => {
        $s.aux.iter().step_by(2)
    };
    (FlatMap, $s:expr) => {
        $s.chunks.iter().flat_map(|v| v.iter())
    };
    (MapIndex, $s:expr) => {{
        let p: &[u8] = &$s.plain;
        (0..p.len()).map(move |i| &p[i])
    }};
    (Deque, $s:expr) => {
        $s.deque.iter()
    };
    (List, $s:expr) => {
        $s.list.iter()
    };
    (Sim, $s:expr) => {
        SimIter::new(&$s.arena, &$s.knobs, 0, $s.arena.len)
    };
    (MapWhile, $s:expr) => {
        $s.aux.iter().map_while(|c| if c.is_ascii_digit() { Some(c) } else { None })
    };
    (ChainSim, $s:expr) => {
        SimIter::new(&$s.arena, &$s.knobs, 0, $s.split).chain(SimIter::new(&$s.arena, &$s.knobs, $s.split, $s.arena.len))
    };
}

macro_rules! same {
    ($v:expr, $bi:expr, $bf:expr, $k:ident) => {
        $v.visit(build!($k, $bi), build!($k, $bf))
    };
}
macro_rules! pair {
    ($v:expr, $bi:expr, $bf:expr, $ki:ident, $kf:ident) => {
        $v.visit(build!($ki, $bi), build!($kf, $bf))
    };
}

/// Instantiate the pair of iterators described by the two stores and hand
/// them to the visitor. Panics on a pair outside `pair_allowed`.
pub fn with_pair<V: PairVisitor>(ki: Kind, kf: Kind, bi: &Store, bf: &Store, v: V) -> V::Out {
    use Kind::*;
    match (ki, kf) {
        (Slice, Slice) => same!(v, bi, bf, Slice),
        (Chain, Chain) => same!(v, bi, bf, Chain),
        (Filter, Filter) => same!(v, bi, bf, Filter),
        (Rev, Rev) => same!(v, bi, bf, Rev),
        (SkipTake, SkipTake) => same!(v, bi, bf, SkipTake),
        (Peekable, Peekable) => same!(v, bi, bf, Peekable),
        (StepBy, StepBy) => same!(v, bi, bf, StepBy),
        (FlatMap, FlatMap) => same!(v, bi, bf, FlatMap),
        (MapIndex, MapIndex) => same!(v, bi, bf, MapIndex),
        (Deque, Deque) => same!(v, bi, bf, Deque),
        (List, List) => same!(v, bi, bf, List),
        (Sim, Sim) => same!(v, bi, bf, Sim),
        (ChainSim, ChainSim) => same!(v, bi, bf, ChainSim),
        (MapWhile, MapWhile) => same!(v, bi, bf, MapWhile),

        (Slice, Chain) => pair!(v, bi, bf, Slice, Chain),
        (Slice, Filter) => pair!(v, bi, bf, Slice, Filter),
        (Slice, Rev) => pair!(v, bi, bf, Slice, Rev),
        (Slice, SkipTake) => pair!(v, bi, bf, Slice, SkipTake),
        (Slice, Peekable) => pair!(v, bi, bf, Slice, Peekable),
        (Slice, StepBy) => pair!(v, bi, bf, Slice, StepBy),
        (Slice, FlatMap) => pair!(v, bi, bf, Slice, FlatMap),
        (Slice, MapIndex) => pair!(v, bi, bf, Slice, MapIndex),
        (Slice, Deque) => pair!(v, bi, bf, Slice, Deque),
        (Slice, List) => pair!(v, bi, bf, Slice, List),
        (Slice, Sim) => pair!(v, bi, bf, Slice, Sim),
        (Slice, ChainSim) => pair!(v, bi, bf, Slice, ChainSim),
        (Slice, MapWhile) => pair!(v, bi, bf, Slice, MapWhile),

        (Chain, Slice) => pair!(v, bi, bf, Chain, Slice),
        (Filter, Slice) => pair!(v, bi, bf, Filter, Slice),
        (Rev, Slice) => pair!(v, bi, bf, Rev, Slice),
        (SkipTake, Slice) => pair!(v, bi, bf, SkipTake, Slice),
        (Peekable, Slice) => pair!(v, bi, bf, Peekable, Slice),
        (StepBy, Slice) => pair!(v, bi, bf, StepBy, Slice),
        (FlatMap, Slice) => pair!(v, bi, bf, FlatMap, Slice),
        (MapIndex, Slice) => pair!(v, bi, bf, MapIndex, Slice),
        (Deque, Slice) => pair!(v, bi, bf, Deque, Slice),
        (List, Slice) => pair!(v, bi, bf, List, Slice),
        (Sim, Slice) => pair!(v, bi, bf, Sim, Slice),
        (ChainSim, Slice) => pair!(v, bi, bf, ChainSim, Slice),
        (MapWhile, Slice) => pair!(v, bi, bf, MapWhile, Slice),

        (Sim, Chain) => pair!(v, bi, bf, Sim, Chain),
        (Sim, Filter) => pair!(v, bi, bf, Sim, Filter),
        (Sim, Rev) => pair!(v, bi, bf, Sim, Rev),
        (Sim, SkipTake) => pair!(v, bi, bf, Sim, SkipTake),
        (Sim, Peekable) => pair!(v, bi, bf, Sim, Peekable),
        (Sim, StepBy) => pair!(v, bi, bf, Sim, StepBy),
        (Sim, FlatMap) => pair!(v, bi, bf, Sim, FlatMap),
        (Sim, MapIndex) => pair!(v, bi, bf, Sim, MapIndex),
        (Sim, Deque) => pair!(v, bi, bf, Sim, Deque),
        (Sim, List) => pair!(v, bi, bf, Sim, List),
        (Sim, ChainSim) => pair!(v, bi, bf, Sim, ChainSim),
        (Sim, MapWhile) => pair!(v, bi, bf, Sim, MapWhile),

        (Chain, Sim) => pair!(v, bi, bf, Chain, Sim),
        (Filter, Sim) => pair!(v, bi, bf, Filter, Sim),
        (Rev, Sim) => pair!(v, bi, bf, Rev, Sim),
        (SkipTake, Sim) => pair!(v, bi, bf, SkipTake, Sim),
        (Peekable, Sim) => pair!(v, bi, bf, Peekable, Sim),
        (StepBy, Sim) => pair!(v, bi, bf, StepBy, Sim),
        (FlatMap, Sim) => pair!(v, bi, bf, FlatMap, Sim),
        (MapIndex, Sim) => pair!(v, bi, bf, MapIndex, Sim),
        (Deque, Sim) => pair!(v, bi, bf, Deque, Sim),
        (List, Sim) => pair!(v, bi, bf, List, Sim),
        (ChainSim, Sim) => pair!(v, bi, bf, ChainSim, Sim),
        (MapWhile, Sim) => pair!(v, bi, bf, MapWhile, Sim),

        (a, b) => panic!("shape pair ({:?},{:?}) is not instantiated", a, b),
    }
}

/// Collect what a shape yields (harness self-check: every shape must deliver
/// exactly the original bytes, on the original and on a clone, and be fused).
pub struct CollectVisitor;
impl PairVisitor for CollectVisitor {
    type Out = (Vec<u8>, Vec<u8>, bool);
    fn visit<'a, A, B>(self, a: A, b: B) -> Self::Out
    where
        A: Iterator<Item = &'a u8> + Clone,
        B: Iterator<Item = &'a u8> + Clone,
    {
        let a2 = a.clone();
        let b2 = b.clone();
        let va: Vec<u8> = a.cloned().collect();
        let vb: Vec<u8> = b.cloned().collect();
        let mut a3 = a2.clone();
        let mut ok = a2.clone().count() == va.len() && b2.clone().count() == vb.len();
        ok &= a2.cloned().collect::<Vec<u8>>() == va && b2.cloned().collect::<Vec<u8>>() == vb;
        // fused
        for _ in 0..va.len() {
            a3.next();
        }
        // (the first poll at the end must be None; what comes after is open for non-fused shapes)
        ok &= a3.next().is_none();
        (va, vb, ok)
    }
}
