//! Engine H for C13: operation histories over the crate's vector type
//! (stack or heap back-end), checked step by step against a reference
//! sequence (`Vec<u64>` + capacity), with capacity exhaustion as the steered
//! fault and the poison stream / allocator fill as the stale-memory seam.

use crate::common::{removal_ranges, Shrink, Stats, Violation};
use crate::nat::Nat;
use crate::rng::{Fp, Rng};
use crate::worlds::{VecApi, World};
use serde::{Deserialize, Serialize};
use std::cmp::Ordering;

pub const CAP: usize = 62;
pub const NSLOTS: usize = 3;
/// Heap vectors are unbounded; the simulator bounds what it asks of them.
pub const HEAP_MAX: usize = 200;

#[derive(Clone, Debug, Serialize, Deserialize, PartialEq, Eq)]
pub enum VOp {
    New { s: u8 },
    FromU64 { s: u8, x: u64 },
    TryFrom { s: u8, data: Vec<u64> },
    Push { s: u8, x: u64 },
    Pop { s: u8 },
    Extend { s: u8, data: Vec<u64> },
    Resize { s: u8, len: usize, x: u64 },
    Normalize { s: u8 },
    AddSmall { s: u8, y: u64 },
    MulSmall { s: u8, y: u64 },
    CloneTo { dst: u8, src: u8 },
    /// `dst.clone_from(&src)` (part of `Clone`)
    CloneFrom { dst: u8, src: u8 },
    Write { s: u8, i: usize, x: u64 },
    IterMutXor { s: u8, x: u64 },
    Eq { a: u8, b: u8 },
    Cmp { a: u8, b: u8 },
    Hi64 { s: u8 },
    MulAssign { s: u8, data: Vec<u64> },
}

impl VOp {
    pub fn key(&self) -> &'static str {
        match self {
            VOp::New { .. } => "op.new",
            VOp::FromU64 { .. } => "op.from_u64",
            VOp::TryFrom { .. } => "op.try_from",
            VOp::Push { .. } => "op.try_push",
            VOp::Pop { .. } => "op.pop",
            VOp::Extend { .. } => "op.try_extend",
            VOp::Resize { .. } => "op.try_resize",
            VOp::Normalize { .. } => "op.normalize",
            VOp::AddSmall { .. } => "op.add_small",
            VOp::MulSmall { .. } => "op.mul_small",
            VOp::CloneTo { .. } => "op.clone",
            VOp::CloneFrom { .. } => "op.clone_from",
            VOp::Write { .. } => "op.deref_mut_write",
            VOp::IterMutXor { .. } => "op.iter_mut",
            VOp::Eq { .. } => "op.eq",
            VOp::Cmp { .. } => "op.cmp",
            VOp::Hi64 { .. } => "op.hi64",
            VOp::MulAssign { .. } => "op.mul_assign",
        }
    }
    pub fn name(&self) -> &'static str {
        match self {
            VOp::New { .. } => "new",
            VOp::FromU64 { .. } => "from_u64",
            VOp::TryFrom { .. } => "try_from",
            VOp::Push { .. } => "try_push",
            VOp::Pop { .. } => "pop",
            VOp::Extend { .. } => "try_extend",
            VOp::Resize { .. } => "try_resize",
            VOp::Normalize { .. } => "normalize",
            VOp::AddSmall { .. } => "add_small",
            VOp::MulSmall { .. } => "mul_small",
            VOp::CloneTo { .. } => "clone",
            VOp::CloneFrom { .. } => "clone_from",
            VOp::Write { .. } => "deref_mut_write",
            VOp::IterMutXor { .. } => "iter_mut",
            VOp::Eq { .. } => "eq",
            VOp::Cmp { .. } => "cmp",
            VOp::Hi64 { .. } => "hi64",
            VOp::MulAssign { .. } => "mul_assign",
        }
    }
}

#[derive(Clone, Debug, Serialize, Deserialize)]
pub struct VecCase {
    pub world: usize,
    /// poison-stream seed (None: backing memory left truly uninitialised — Miri)
    pub poison: Option<u64>,
    pub ops: Vec<VOp>,
}

/// What the reference sequence says an operation must do.
#[derive(Clone, Debug, PartialEq, Eq)]
pub enum Expect {
    /// operation cannot fail; contents follow the model
    Plain,
    /// fallible operation: must succeed (true) / must fail leaving contents unchanged (false)
    Try(bool),
    Popped(Option<u64>),
    /// small arithmetic: must succeed (true) or must fail (false, contents then unspecified)
    Arith(bool),
    EqIs(bool),
    /// numeric order (both operands normalised) or None (order axioms only)
    CmpIs(Option<Ordering>),
    Hi64Is(Option<(u64, bool)>),
    /// product fits: must succeed; otherwise panic or (heap) exact success
    Mul { fits: bool, skip: bool },
}

fn is_norm(m: &[u64]) -> bool {
    m.last() != Some(&0)
}

fn pad_to(mut v: Vec<u64>, len: usize) -> Vec<u64> {
    while v.len() < len {
        v.push(0);
    }
    v
}

/// Reference semantics: update `models` and say what must be observed.
/// `cap` is None for the heap back-end.
pub fn apply_model(op: &VOp, m: &mut [Vec<u64>; NSLOTS], cap: Option<usize>) -> Expect {
    let fits = |n: usize| cap.map(|c| n <= c).unwrap_or(true);
    match op {
        VOp::New { s } => {
            m[*s as usize].clear();
            Expect::Plain
        },
        VOp::FromU64 { s, x } => {
            m[*s as usize] = if *x == 0 { vec![] } else { vec![*x] };
            Expect::Plain
        },
        VOp::TryFrom { s, data } => {
            if fits(data.len()) {
                m[*s as usize] = data.clone();
                Expect::Try(true)
            } else {
                Expect::Try(false)
            }
        },
        VOp::Push { s, x } => {
            let v = &mut m[*s as usize];
            if fits(v.len() + 1) {
                v.push(*x);
                Expect::Try(true)
            } else {
                Expect::Try(false)
            }
        },
        VOp::Pop { s } => Expect::Popped(m[*s as usize].pop()),
        VOp::Extend { s, data } => {
            let v = &mut m[*s as usize];
            if fits(v.len() + data.len()) {
                v.extend_from_slice(data);
                Expect::Try(true)
            } else {
                Expect::Try(false)
            }
        },
        VOp::Resize { s, len, x } => {
            let v = &mut m[*s as usize];
            if fits(*len) {
                v.resize(*len, *x);
                Expect::Try(true)
            } else {
                Expect::Try(false)
            }
        },
        VOp::Normalize { s } => {
            let v = &mut m[*s as usize];
            while v.last() == Some(&0) {
                v.pop();
            }
            Expect::Plain
        },
        VOp::AddSmall { s, y } => {
            let v = &mut m[*s as usize];
            let r = Nat::from_limbs64(v).add_u64(*y);
            let need = r.limbs64().max(v.len());
            if fits(need) {
                *v = pad_to(r.to_limbs64(), v.len());
                Expect::Arith(true)
            } else {
                Expect::Arith(false)
            }
        },
        VOp::MulSmall { s, y } => {
            let v = &mut m[*s as usize];
            let r = Nat::from_limbs64(v).mul_u64(*y);
            let need = r.limbs64().max(v.len());
            if fits(need) {
                *v = pad_to(r.to_limbs64(), v.len());
                Expect::Arith(true)
            } else {
                Expect::Arith(false)
            }
        },
        VOp::CloneTo { dst, src } | VOp::CloneFrom { dst, src } => {
            let c = m[*src as usize].clone();
            m[*dst as usize] = c;
            Expect::Plain
        },
        VOp::Write { s, i, x } => {
            let v = &mut m[*s as usize];
            if !v.is_empty() {
                let n = v.len();
                v[*i % n] = *x;
            }
            Expect::Plain
        },
        VOp::IterMutXor { s, x } => {
            for l in m[*s as usize].iter_mut() {
                *l ^= *x;
            }
            Expect::Plain
        },
        VOp::Eq { a, b } => Expect::EqIs(m[*a as usize] == m[*b as usize]),
        VOp::Cmp { a, b } => {
            let (x, y) = (&m[*a as usize], &m[*b as usize]);
            if is_norm(x) && is_norm(y) {
                Expect::CmpIs(Some(Nat::from_limbs64(x).cmp(&Nat::from_limbs64(y))))
            } else {
                Expect::CmpIs(None)
            }
        },
        VOp::Hi64 { s } => {
            let x = &m[*s as usize];
            if is_norm(x) {
                Expect::Hi64Is(Some(Nat::from_limbs64(x).hi64()))
            } else {
                Expect::Hi64Is(None)
            }
        },
        VOp::MulAssign { s, data } => {
            let v = &mut m[*s as usize];
            if v.is_empty() || data.is_empty() || !is_norm(v) || !is_norm(data) {
                return Expect::Mul { fits: true, skip: true };
            }
            let p = Nat::from_limbs64(v).mul(&Nat::from_limbs64(data));
            let f = fits(p.limbs64());
            if f || cap.is_none() {
                *v = p.to_limbs64();
            }
            Expect::Mul { fits: f, skip: false }
        },
    }
}

#[derive(Default, Clone, Debug)]
pub struct VecRunInfo {
    pub faults: u64,
    pub reached_cap: bool,
    pub refill_after_shrink: bool,
    pub fp: u64,
    pub resyncs: u64,
}

fn viol(clause: &str, step: usize, op: &VOp, detail: String) -> Violation {
    Violation::new(format!("C13/{}", clause), format!("step {} {}: {}", step, op.name(), detail))
}

/// Execute a history against the implementation of world `W` and the model.
pub fn run_case<W: World>(case: &VecCase, stats: &mut Stats) -> Result<VecRunInfo, Violation> {
    let cap = if W::ALLOC { None } else { Some(CAP) };
    W::set_poison(case.poison);
    let mut info = VecRunInfo::default();
    let mut fp = Fp::new();
    let mut imp: [W::V; NSLOTS] = [W::V::v_new(), W::V::v_new(), W::V::v_new()];
    let mut model: [Vec<u64>; NSLOTS] = [vec![], vec![], vec![]];
    let mut was_full = [false; NSLOTS];
    let mut shrunk_after_full = [false; NSLOTS];

    for (step, op) in case.ops.iter().enumerate() {
        // heap back-end: never ask for absurd sizes (would abort the process, not fail)
        if cap.is_none() {
            if let VOp::Resize { len, .. } = op {
                if *len > 4096 {
                    continue;
                }
            }
        }
        let cmp_low_only = if let VOp::Cmp { a, b } = op {
            let (x, y) = (&model[*a as usize], &model[*b as usize]);
            x.len() == y.len() && x.len() > 1 && x[1..] == y[1..] && x[0] != y[0]
        } else {
            false
        };
        let exp = apply_model(op, &mut model, cap);
        stats.inc(op.key());
        fp.push(op.name().len() as u64 ^ ((op.name().as_bytes()[0] as u64) << 8));
        match (op, &exp) {
            (VOp::New { s }, _) => imp[*s as usize] = W::V::v_new(),
            (VOp::FromU64 { s, x }, _) => imp[*s as usize] = W::V::v_from_u64(*x),
            (VOp::TryFrom { s, data }, Expect::Try(ok)) => match W::V::v_try_from(data) {
                Some(v) => {
                    if !*ok {
                        return Err(viol("capacity", step, op, format!("try_from of {} limbs succeeded", data.len())));
                    }
                    imp[*s as usize] = v;
                },
                None => {
                    if *ok {
                        return Err(viol("spurious-failure", step, op, format!("try_from of {} limbs failed", data.len())));
                    }
                    info.faults += 1;
                    stats.inc("fault.try_from");
                },
            },
            (VOp::Push { s, x }, Expect::Try(ok)) => {
                let r = imp[*s as usize].v_try_push(*x);
                check_try(r, *ok, step, op, &mut info, stats, "fault.try_push")?;
            },
            (VOp::Extend { s, data }, Expect::Try(ok)) => {
                let r = imp[*s as usize].v_try_extend(data);
                check_try(r, *ok, step, op, &mut info, stats, "fault.try_extend")?;
            },
            (VOp::Resize { s, len, x }, Expect::Try(ok)) => {
                let r = imp[*s as usize].v_try_resize(*len, *x);
                check_try(r, *ok, step, op, &mut info, stats, "fault.try_resize")?;
            },
            (VOp::Pop { s }, Expect::Popped(want)) => {
                let got = imp[*s as usize].v_pop();
                if got != *want {
                    return Err(viol("pop", step, op, format!("popped {:?}, reference {:?}", got, want)));
                }
            },
            (VOp::Normalize { s }, _) => imp[*s as usize].v_normalize(),
            (VOp::AddSmall { s, y }, Expect::Arith(ok)) => {
                let r = imp[*s as usize].v_add_small(*y);
                check_arith::<W>(r, *ok, step, op, &imp[*s as usize], &mut model[*s as usize], &mut info, stats)?;
            },
            (VOp::MulSmall { s, y }, Expect::Arith(ok)) => {
                let r = imp[*s as usize].v_mul_small(*y);
                check_arith::<W>(r, *ok, step, op, &imp[*s as usize], &mut model[*s as usize], &mut info, stats)?;
            },
            (VOp::CloneTo { dst, src }, _) => {
                let c = imp[*src as usize].clone();
                imp[*dst as usize] = c;
            },
            (VOp::CloneFrom { dst, src }, _) => {
                if dst != src {
                    let c = imp[*src as usize].clone();
                    imp[*dst as usize].clone_from(&c);
                    // and straight from the other slot, without the intermediate clone
                    let (a, b) = if dst < src {
                        let (l, r) = imp.split_at_mut(*src as usize);
                        (&mut l[*dst as usize], &r[0])
                    } else {
                        let (l, r) = imp.split_at_mut(*dst as usize);
                        (&mut r[0], &l[*src as usize])
                    };
                    a.clone_from(b);
                }
            },
            (VOp::Write { s, i, x }, _) => {
                let v = &mut imp[*s as usize];
                let n = v.len();
                if n > 0 {
                    v[*i % n] = *x;
                    if *i % n == n - 1 {
                        stats.inc("reach.write_at_last");
                    }
                }
            },
            (VOp::IterMutXor { s, x }, _) => {
                for l in imp[*s as usize].iter_mut() {
                    *l ^= *x;
                }
            },
            (VOp::Eq { a, b }, Expect::EqIs(want)) => {
                let got = imp[*a as usize] == imp[*b as usize];
                if got != *want {
                    return Err(viol("equality", step, op, format!("== gave {}, reference {}", got, want)));
                }
            },
            (VOp::Cmp { a, b }, Expect::CmpIs(want)) => {
                let (x, y) = (&imp[*a as usize], &imp[*b as usize]);
                let got = x.cmp(y);
                let rev = y.cmp(x);
                if x.partial_cmp(y) != Some(got) {
                    return Err(viol("ordering", step, op, "partial_cmp != Some(cmp)".into()));
                }
                if got != rev.reverse() {
                    return Err(viol("ordering", step, op, format!("cmp not antisymmetric: {:?} vs {:?}", got, rev)));
                }
                if x.cmp(x) != Ordering::Equal {
                    return Err(viol("ordering", step, op, "cmp not reflexive".into()));
                }
                // the comparison operators are part of the ordering too
                let ops = [(x < y, got == Ordering::Less), (x <= y, got != Ordering::Greater), (x > y, got == Ordering::Greater), (x >= y, got != Ordering::Less)];
                if ops.iter().any(|(a, b)| a != b) || !(x <= x) || !(x >= x) || x < x || x > x {
                    return Err(viol("ordering", step, op, format!("<, <=, >, >= disagree with cmp ({:?})", got)));
                }
                if let Some(w) = want {
                    stats.inc("reach.cmp_normalised");
                    if cmp_low_only {
                        stats.inc("reach.cmp_differs_in_lowest_limb_only");
                    }
                    if got != *w {
                        return Err(viol("ordering", step, op, format!("cmp gave {:?}, numeric order {:?}", got, w)));
                    }
                    if (got == Ordering::Equal) != (x == y) {
                        return Err(viol("ordering", step, op, "cmp == Equal disagrees with ==".into()));
                    }
                } else {
                    stats.inc("note.cmp_unnormalised_axioms_only");
                }
            },
            (VOp::Hi64 { s }, Expect::Hi64Is(want)) => {
                if let Some(w) = want {
                    let got = imp[*s as usize].v_hi64();
                    if got != *w {
                        return Err(viol("hi64", step, op, format!("hi64 gave {:?}, reference {:?}", got, w)));
                    }
                }
            },
            (VOp::MulAssign { s, data }, Expect::Mul { fits, skip }) => {
                if !*skip {
                    let slot = &mut imp[*s as usize];
                    let r = crate::common::catch(|| slot.v_mul_assign(data));
                    match r {
                        Ok(()) => {
                            if !*fits && cap.is_some() {
                                return Err(viol("capacity", step, op, "product beyond capacity did not fail".into()));
                            }
                        },
                        Err(site) => {
                            if *fits {
                                return Err(viol(
                                    "spurious-failure",
                                    step,
                                    op,
                                    format!("product within capacity panicked at {}", site),
                                ));
                            }
                            info.faults += 1;
                            stats.inc("fault.mul_assign_overflow_panic");
                            // contents unspecified after the documented panic: resynchronise
                            model[*s as usize] = imp[*s as usize].to_vec();
                            info.resyncs += 1;
                        },
                    }
                }
            },
            _ => unreachable!("op/expect mismatch"),
        }

        // failed fallible operations leave the contents unchanged: the model
        // was not changed by apply_model in that case, so the comparison below
        // is exactly the "unchanged" clause.
        for k in 0..NSLOTS {
            let v = &imp[k];
            if let Some(c) = cap {
                if v.v_len() > c || v.v_capacity() != c {
                    return Err(viol("len<=capacity", step, op, format!("slot {} len {} capacity {}", k, v.v_len(), v.v_capacity())));
                }
            } else if v.v_len() > v.v_capacity() {
                return Err(viol("len<=capacity", step, op, format!("slot {} len {} capacity {}", k, v.v_len(), v.v_capacity())));
            }
            let vis: &[u64] = &v[..];
            if vis.len() != v.v_len() || v.v_is_empty() != (v.v_len() == 0) {
                return Err(viol("contents", step, op, format!("slot {} slice len {} vs len() {}", k, vis.len(), v.v_len())));
            }
            if vis != &model[k][..] {
                let unchanged_clause = matches!(exp, Expect::Try(false));
                let first = vis.iter().zip(model[k].iter()).position(|(a, b)| a != b);
                return Err(viol(
                    if unchanged_clause { "failed-op-changed-contents" } else { "contents" },
                    step,
                    op,
                    format!(
                        "slot {}: visible len {} vs reference len {}, first differing limb {:?}",
                        k,
                        vis.len(),
                        model[k].len(),
                        first
                    ),
                ));
            }
            if v.v_is_normalized() != is_norm(&model[k]) {
                return Err(viol("contents", step, op, format!("slot {} is_normalized disagrees", k)));
            }
            if model[k].len() >= CAP {
                info.reached_cap = true;
                if !was_full[k] {
                    stats.inc("reach.len_reached_capacity");
                }
                if was_full[k] && shrunk_after_full[k] {
                    info.refill_after_shrink = true;
                    stats.inc("reach.refill_after_shrink");
                    shrunk_after_full[k] = false;
                }
                was_full[k] = true;
            } else if was_full[k] && model[k].len() <= 5 {
                shrunk_after_full[k] = true;
            }
        }
        fp.push(model.iter().map(|m| m.len() as u64).fold(0, |a, l| a * 97 + l));
    }
    info.fp = fp.finish();
    Ok(info)
}

fn check_try(
    r: Option<()>,
    ok: bool,
    step: usize,
    op: &VOp,
    info: &mut VecRunInfo,
    stats: &mut Stats,
    key: &str,
) -> Result<(), Violation> {
    match (r, ok) {
        (Some(()), true) => Ok(()),
        (None, false) => {
            info.faults += 1;
            stats.inc(key);
            Ok(())
        },
        (Some(()), false) => Err(viol("capacity", step, op, "operation beyond the capacity succeeded".into())),
        (None, true) => Err(viol("spurious-failure", step, op, "operation within the capacity failed".into())),
    }
}

#[allow(clippy::too_many_arguments)]
fn check_arith<W: World>(
    r: Option<()>,
    ok: bool,
    step: usize,
    op: &VOp,
    imp: &W::V,
    model: &mut Vec<u64>,
    info: &mut VecRunInfo,
    stats: &mut Stats,
) -> Result<(), Violation> {
    match (r, ok) {
        (Some(()), true) => Ok(()),
        (None, false) => {
            // no atomicity promised for small arithmetic: resynchronise (the only relaxation)
            info.faults += 1;
            info.resyncs += 1;
            stats.inc("fault.small_arith_overflow");
            if imp.v_len() > imp.v_capacity() {
                return Err(viol("len<=capacity", step, op, "after failed arithmetic".into()));
            }
            *model = imp.to_vec();
            Ok(())
        },
        (Some(()), false) => {
            if W::ALLOC {
                unreachable!()
            }
            Err(viol("capacity", step, op, "arithmetic result beyond the capacity reported success".into()))
        },
        (None, true) => Err(viol("spurious-failure", step, op, "arithmetic within the capacity failed".into())),
    }
}

// ---------------------------------------------------------------------------
// generation
// ---------------------------------------------------------------------------

pub fn limb(r: &mut Rng) -> u64 {
    match r.below(12) {
        0 => 0,
        1 => 1,
        2 => 2,
        3 => (1 << 32) - 1,
        4 => 1 << 32,
        5 => 1 << 63,
        6 => u64::MAX - 1,
        7 | 8 => u64::MAX,
        _ => r.next_u64(),
    }
}

fn limbs(r: &mut Rng, n: usize) -> Vec<u64> {
    (0..n).map(|_| limb(r)).collect()
}

#[derive(Clone, Copy, PartialEq)]
enum Phase {
    Fill,
    Shrink,
    Mixed,
}

pub fn gen_case(seed: u64, world: usize, alloc: bool, native_poison: bool, max_ops: usize) -> VecCase {
    let mut r = Rng::new(seed);
    let cap = if alloc { None } else { Some(CAP) };
    let nops = 4 + r.usize_below(max_ops.saturating_sub(3).max(1));
    let mut model: [Vec<u64>; NSLOTS] = [vec![], vec![], vec![]];
    let mut ops = Vec::with_capacity(nops);
    let mut phase = [Phase::Fill; NSLOTS];
    for p in phase.iter_mut() {
        *p = *r.pick(&[Phase::Fill, Phase::Mixed, Phase::Fill]);
    }
    let hi = if alloc { HEAP_MAX } else { CAP + 8 };
    while ops.len() < nops {
        let s = r.below(NSLOTS as u64) as u8;
        let len = model[s as usize].len();
        let room = CAP.saturating_sub(len);
        let op = match phase[s as usize] {
            Phase::Fill => match r.below(10) {
                0 | 1 => {
                    // extend to land exactly on / around the capacity
                    let n = match r.below(4) {
                        0 => room,
                        1 => room + 1,
                        2 => room.saturating_sub(1),
                        _ => r.usize_below(room + 3),
                    };
                    VOp::Extend { s, data: limbs(&mut r, n.min(hi)) }
                },
                2 => VOp::Resize {
                    s,
                    len: *r.pick(&[CAP - 2, CAP - 1, CAP, CAP + 1, CAP]),
                    x: limb(&mut r),
                },
                3 => {
                    let n = *r.pick(&[CAP - 1, CAP, CAP + 1, CAP + 8, 60]);
                    VOp::TryFrom { s, data: limbs(&mut r, n) }
                },
                4 | 5 | 6 => VOp::Push { s, x: limb(&mut r) },
                7 => VOp::MulSmall { s, y: limb(&mut r) },
                8 => VOp::AddSmall { s, y: limb(&mut r) },
                _ => {
                    let n = 1 + r.usize_below(20);
                    VOp::Extend { s, data: limbs(&mut r, n) }
                },
            },
            Phase::Shrink => match r.below(10) {
                0 | 1 | 2 => VOp::Pop { s },
                3 | 4 => VOp::Resize { s, len: r.usize_below(6), x: limb(&mut r) },
                5 => VOp::Write { s, i: len.saturating_sub(1), x: 0 },
                6 | 7 => VOp::Normalize { s },
                8 => VOp::IterMutXor { s, x: *r.pick(&[0, u64::MAX, 1]) },
                _ => VOp::New { s },
            },
            Phase::Mixed => match r.below(26) {
                0 => VOp::New { s },
                1 => VOp::FromU64 { s, x: limb(&mut r) },
                2 => {
                    let n = r.usize_below(12);
                    VOp::TryFrom { s, data: limbs(&mut r, n) }
                },
                3 | 4 => VOp::Push { s, x: limb(&mut r) },
                5 | 6 => VOp::Pop { s },
                7 => {
                    let n = r.usize_below(10);
                    VOp::Extend { s, data: limbs(&mut r, n) }
                },
                8 => VOp::Resize { s, len: r.usize_below(len + 4), x: limb(&mut r) },
                9 => VOp::Resize {
                    s,
                    len: if alloc { r.usize_below(HEAP_MAX) } else { *r.pick(&[CAP + 1, 1000, usize::MAX / 2, usize::MAX, 65536, 65535 + CAP]) },
                    x: limb(&mut r),
                },
                10 | 11 => VOp::Normalize { s },
                12 | 13 => VOp::AddSmall { s, y: limb(&mut r) },
                14 | 15 => VOp::MulSmall { s, y: limb(&mut r) },
                16 => {
                    let src = r.below(NSLOTS as u64) as u8;
                    if r.chance(1, 2) {
                        VOp::CloneTo { dst: s, src }
                    } else {
                        VOp::CloneFrom { dst: s, src }
                    }
                },
                17 | 18 => VOp::Write { s, i: r.usize_below(64), x: limb(&mut r) },
                19 => VOp::IterMutXor { s, x: limb(&mut r) },
                20 => VOp::Eq { a: s, b: r.below(NSLOTS as u64) as u8 },
                21 | 22 => VOp::Cmp { a: s, b: r.below(NSLOTS as u64) as u8 },
                23 => VOp::Hi64 { s },
                24 => {
                    // clone then perturb the lowest limb, then compare: equal length, differ low
                    VOp::CloneTo { dst: (s + 1) % NSLOTS as u8, src: s }
                },
                _ => {
                    let n = 1 + r.usize_below(4);
                    VOp::MulAssign { s, data: limbs(&mut r, n) }
                },
            },
        };
        // follow-up for the clone-perturb-compare pattern
        let follow = if let VOp::CloneTo { dst, src } = &op {
            if r.chance(1, 2) {
                Some((*dst, *src))
            } else {
                None
            }
        } else {
            None
        };
        apply_model(&op, &mut model, cap);
        ops.push(op);
        if let Some((d, s2)) = follow {
            let w = VOp::Write { s: d, i: 0, x: limb(&mut r) };
            apply_model(&w, &mut model, cap);
            ops.push(w);
            let c = VOp::Cmp { a: d, b: s2 };
            apply_model(&c, &mut model, cap);
            ops.push(c);
        }
        // occasional queries everywhere
        if r.chance(1, 6) {
            let q = match r.below(3) {
                0 => VOp::Cmp { a: s, b: r.below(NSLOTS as u64) as u8 },
                1 => VOp::Eq { a: s, b: r.below(NSLOTS as u64) as u8 },
                _ => VOp::Hi64 { s },
            };
            ops.push(q);
        }
        // phase transitions: fill -> shrink -> fill again
        let l = model[s as usize].len();
        phase[s as usize] = match phase[s as usize] {
            Phase::Fill if l >= CAP - 1 && r.chance(2, 3) => Phase::Shrink,
            Phase::Shrink if l <= 3 && r.chance(2, 3) => {
                if r.chance(3, 4) {
                    Phase::Fill
                } else {
                    Phase::Mixed
                }
            },
            Phase::Mixed if r.chance(1, 12) => Phase::Fill,
            p => p,
        };
    }
    VecCase { world, poison: if native_poison { Some(r.next_u64() | 1) } else { None }, ops }
}

// ---------------------------------------------------------------------------
// shrinking
// ---------------------------------------------------------------------------

fn simpler_op(op: &VOp) -> Vec<VOp> {
    let mut out = Vec::new();
    let shorter = |d: &Vec<u64>| -> Vec<Vec<u64>> {
        let mut v = Vec::new();
        if d.len() > 1 {
            v.push(d[..d.len() / 2].to_vec());
            v.push(d[..d.len() - 1].to_vec());
        }
        if d.iter().any(|&x| x != 1) {
            v.push(vec![1; d.len()]);
        }
        v
    };
    match op {
        VOp::TryFrom { s, data } => {
            for d in shorter(data) {
                out.push(VOp::TryFrom { s: *s, data: d });
            }
        },
        VOp::Extend { s, data } => {
            for d in shorter(data) {
                out.push(VOp::Extend { s: *s, data: d });
            }
        },
        VOp::MulAssign { s, data } => {
            for d in shorter(data) {
                out.push(VOp::MulAssign { s: *s, data: d });
            }
        },
        VOp::Push { s, x } if *x != 1 => out.push(VOp::Push { s: *s, x: 1 }),
        VOp::Resize { s, len, x } => {
            if *x != 1 {
                out.push(VOp::Resize { s: *s, len: *len, x: 1 });
            }
            if *len > CAP + 1 {
                out.push(VOp::Resize { s: *s, len: CAP + 1, x: *x });
            }
        },
        VOp::FromU64 { s, x } if *x != 1 => out.push(VOp::FromU64 { s: *s, x: 1 }),
        VOp::AddSmall { s, y } if *y != 1 => out.push(VOp::AddSmall { s: *s, y: 1 }),
        VOp::MulSmall { s, y } if *y != 2 => out.push(VOp::MulSmall { s: *s, y: 2 }),
        VOp::Write { s, i, x } if *x != 1 => out.push(VOp::Write { s: *s, i: *i, x: 1 }),
        _ => {},
    }
    out
}

impl Shrink for VecCase {
    fn candidates(&self) -> Vec<VecCase> {
        let mut out = Vec::new();
        for (a, b) in removal_ranges(self.ops.len()) {
            let mut ops = self.ops.clone();
            ops.drain(a..b);
            out.push(VecCase { world: self.world, poison: self.poison, ops });
        }
        for (i, op) in self.ops.iter().enumerate() {
            for s in simpler_op(op) {
                let mut ops = self.ops.clone();
                ops[i] = s;
                out.push(VecCase { world: self.world, poison: self.poison, ops });
            }
        }
        out
    }
    fn size(&self) -> usize {
        self.ops.len()
    }
}

pub fn describe(case: &VecCase) -> serde_json::Value {
    serde_json::json!({
        "world": crate::worlds::WORLD_NAMES[case.world],
        "poison_seed": case.poison,
        "ops": case.ops.iter().map(|o| {
            let s = format!("{:?}", o);
            if s.len() > 160 { format!("{}…", &s[..160]) } else { s }
        }).collect::<Vec<_>>(),
    })
}
