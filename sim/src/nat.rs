//! The simulator's own natural numbers: the reference model for the big
//! integer (C12), the numeric order for C13, and the constructor of exact
//! halfway decimal expansions for the shared input generator.
//!
//! Deliberately naive and deliberately a different limb width (u32) from the
//! code under test (u64 limbs): little-endian `Vec<u32>`, no trailing zero
//! limbs, schoolbook everything.

use std::cmp::Ordering;

#[derive(Clone, Debug, PartialEq, Eq, Default)]
pub struct Nat {
    d: Vec<u32>,
}

impl Nat {
    pub fn zero() -> Nat {
        Nat { d: Vec::new() }
    }

    fn trim(mut self) -> Nat {
        while let Some(&0) = self.d.last() {
            self.d.pop();
        }
        self
    }

    pub fn from_u64(x: u64) -> Nat {
        Nat { d: vec![x as u32, (x >> 32) as u32] }.trim()
    }

    pub fn from_u128(x: u128) -> Nat {
        Nat { d: vec![x as u32, (x >> 32) as u32, (x >> 64) as u32, (x >> 96) as u32] }.trim()
    }

    /// From little-endian 64-bit limbs (any number of zero top limbs allowed).
    pub fn from_limbs64(x: &[u64]) -> Nat {
        let mut d = Vec::with_capacity(x.len() * 2);
        for &l in x {
            d.push(l as u32);
            d.push((l >> 32) as u32);
        }
        Nat { d }.trim()
    }

    /// To normalised little-endian 64-bit limbs (zero -> empty).
    pub fn to_limbs64(&self) -> Vec<u64> {
        let mut out = Vec::with_capacity((self.d.len() + 1) / 2);
        for c in self.d.chunks(2) {
            let lo = c[0] as u64;
            let hi = if c.len() > 1 { c[1] as u64 } else { 0 };
            out.push(lo | (hi << 32));
        }
        out
    }

    pub fn is_zero(&self) -> bool {
        self.d.is_empty()
    }

    pub fn bit_length(&self) -> usize {
        match self.d.last() {
            None => 0,
            Some(&t) => self.d.len() * 32 - t.leading_zeros() as usize,
        }
    }

    /// Number of 64-bit limbs the value needs (0 for zero).
    pub fn limbs64(&self) -> usize {
        (self.bit_length() + 63) / 64
    }

    pub fn bit(&self, i: usize) -> bool {
        match self.d.get(i / 32) {
            None => false,
            Some(&w) => (w >> (i % 32)) & 1 == 1,
        }
    }

    pub fn add(&self, o: &Nat) -> Nat {
        let n = self.d.len().max(o.d.len());
        let mut d = Vec::with_capacity(n + 1);
        let mut carry = 0u64;
        for i in 0..n {
            let a = *self.d.get(i).unwrap_or(&0) as u64;
            let b = *o.d.get(i).unwrap_or(&0) as u64;
            let s = a + b + carry;
            d.push(s as u32);
            carry = s >> 32;
        }
        if carry != 0 {
            d.push(carry as u32);
        }
        Nat { d }
    }

    pub fn add_u64(&self, y: u64) -> Nat {
        self.add(&Nat::from_u64(y))
    }

    pub fn mul(&self, o: &Nat) -> Nat {
        if self.is_zero() || o.is_zero() {
            return Nat::zero();
        }
        let mut d = vec![0u32; self.d.len() + o.d.len()];
        for (i, &a) in self.d.iter().enumerate() {
            let mut carry = 0u64;
            for (j, &b) in o.d.iter().enumerate() {
                let t = d[i + j] as u64 + (a as u64) * (b as u64) + carry;
                d[i + j] = t as u32;
                carry = t >> 32;
            }
            let mut k = i + o.d.len();
            while carry != 0 {
                let t = d[k] as u64 + carry;
                d[k] = t as u32;
                carry = t >> 32;
                k += 1;
            }
        }
        Nat { d }.trim()
    }

    pub fn mul_u64(&self, y: u64) -> Nat {
        self.mul(&Nat::from_u64(y))
    }

    pub fn shl(&self, n: usize) -> Nat {
        if self.is_zero() {
            return Nat::zero();
        }
        let words = n / 32;
        let bits = n % 32;
        let mut d = vec![0u32; words];
        if bits == 0 {
            d.extend_from_slice(&self.d);
        } else {
            let mut prev = 0u32;
            for &w in &self.d {
                d.push((w << bits) | (prev >> (32 - bits)));
                prev = w;
            }
            d.push(prev >> (32 - bits));
        }
        Nat { d }.trim()
    }

    pub fn shr(&self, n: usize) -> Nat {
        let words = n / 32;
        let bits = n % 32;
        if words >= self.d.len() {
            return Nat::zero();
        }
        let src = &self.d[words..];
        let mut d = Vec::with_capacity(src.len());
        for i in 0..src.len() {
            let lo = src[i] >> bits;
            let hi = if bits == 0 || i + 1 >= src.len() { 0 } else { src[i + 1] << (32 - bits) };
            d.push(lo | hi);
        }
        Nat { d }.trim()
    }

    /// True iff any of the low `n` bits is set.
    pub fn low_bits_nonzero(&self, n: usize) -> bool {
        let words = n / 32;
        let bits = n % 32;
        for i in 0..words.min(self.d.len()) {
            if self.d[i] != 0 {
                return true;
            }
        }
        if bits != 0 {
            if let Some(&w) = self.d.get(words) {
                if w & ((1u32 << bits) - 1) != 0 {
                    return true;
                }
            }
        }
        false
    }

    pub fn pow_u32(base: u32, exp: u32) -> Nat {
        let mut r = Nat::from_u64(1);
        let b = Nat::from_u64(base as u64);
        for _ in 0..exp {
            r = r.mul(&b);
        }
        r
    }

    /// base^exp by square-and-multiply (used for large exponents).
    pub fn pow_fast(base: u32, mut exp: u32) -> Nat {
        let mut r = Nat::from_u64(1);
        let mut b = Nat::from_u64(base as u64);
        while exp != 0 {
            if exp & 1 == 1 {
                r = r.mul(&b);
            }
            exp >>= 1;
            if exp != 0 {
                b = b.mul(&b);
            }
        }
        r
    }

    /// Top 64 bits of a non-zero value, left-aligned, plus "any lower bit set".
    pub fn hi64(&self) -> (u64, bool) {
        let bl = self.bit_length();
        if bl == 0 {
            return (0, false);
        }
        if bl <= 64 {
            let v = self.to_u64().unwrap();
            (v << (64 - bl), false)
        } else {
            let top = self.shr(bl - 64).to_u64().unwrap();
            (top, self.low_bits_nonzero(bl - 64))
        }
    }

    pub fn to_u64(&self) -> Option<u64> {
        match self.d.len() {
            0 => Some(0),
            1 => Some(self.d[0] as u64),
            2 => Some(self.d[0] as u64 | ((self.d[1] as u64) << 32)),
            _ => None,
        }
    }

    /// Divide in place by a small value, return the remainder.
    fn divrem_small(&mut self, y: u32) -> u32 {
        let mut rem = 0u64;
        for w in self.d.iter_mut().rev() {
            let cur = (rem << 32) | *w as u64;
            *w = (cur / y as u64) as u32;
            rem = cur % y as u64;
        }
        while let Some(&0) = self.d.last() {
            self.d.pop();
        }
        rem as u32
    }

    /// floor(self / 10^q)
    pub fn div_pow10(&self, q: u32) -> Nat {
        let mut n = self.clone();
        let mut left = q;
        while left >= 9 {
            n.divrem_small(1_000_000_000);
            left -= 9;
        }
        if left > 0 {
            n.divrem_small(10u32.pow(left));
        }
        n
    }

    /// ASCII decimal digits, most significant first ("" for zero).
    pub fn to_decimal(&self) -> Vec<u8> {
        let mut n = self.clone();
        let mut chunks: Vec<u32> = Vec::new();
        while !n.is_zero() {
            chunks.push(n.divrem_small(1_000_000_000));
        }
        let mut out = Vec::with_capacity(chunks.len() * 9);
        for (i, c) in chunks.iter().rev().enumerate() {
            let s = if i == 0 { format!("{}", c) } else { format!("{:09}", c) };
            out.extend_from_slice(s.as_bytes());
        }
        out
    }

    pub fn from_decimal(digits: &[u8]) -> Nat {
        let mut n = Nat::zero();
        for chunk in digits.chunks(9) {
            let mut v = 0u64;
            for &c in chunk {
                v = v * 10 + (c - b'0') as u64;
            }
            n = n.mul_u64(10u64.pow(chunk.len() as u32)).add_u64(v);
        }
        n
    }
}

impl PartialOrd for Nat {
    fn partial_cmp(&self, o: &Nat) -> Option<Ordering> {
        Some(self.cmp(o))
    }
}

impl Ord for Nat {
    fn cmp(&self, o: &Nat) -> Ordering {
        match self.d.len().cmp(&o.d.len()) {
            Ordering::Equal => {
                for i in (0..self.d.len()).rev() {
                    match self.d[i].cmp(&o.d[i]) {
                        Ordering::Equal => {},
                        ord => return ord,
                    }
                }
                Ordering::Equal
            },
            ord => ord,
        }
    }
}

/// Self-test of the reference arithmetic against u128 (run by `selftest`).
pub fn selftest(seed: u64) -> Result<u64, String> {
    use crate::rng::Rng;
    let mut r = Rng::new(seed);
    let mut n = 0u64;
    for _ in 0..20_000 {
        let a = r.next_u64() >> r.below(64);
        let b = r.next_u64() >> r.below(64);
        let na = Nat::from_u64(a);
        let nb = Nat::from_u64(b);
        if na.mul(&nb) != Nat::from_u128(a as u128 * b as u128) {
            return Err(format!("mul {} {}", a, b));
        }
        if na.add(&nb) != Nat::from_u128(a as u128 + b as u128) {
            return Err(format!("add {} {}", a, b));
        }
        let s = r.below(64) as usize;
        if na.shl(s) != Nat::from_u128((a as u128) << s) {
            return Err(format!("shl {} {}", a, s));
        }
        if na.shl(s).shr(s) != na {
            return Err(format!("shr {} {}", a, s));
        }
        if na.cmp(&nb) != a.cmp(&b) {
            return Err(format!("cmp {} {}", a, b));
        }
        let prod = a as u128 * b as u128;
        let dec = Nat::from_u128(prod).to_decimal();
        let want = if prod == 0 { String::new() } else { format!("{}", prod) };
        if dec != want.as_bytes() {
            return Err(format!("dec {}", prod));
        }
        if Nat::from_decimal(&dec) != Nat::from_u128(prod) {
            return Err(format!("from_dec {}", prod));
        }
        if prod != 0 {
            let bl = 128 - prod.leading_zeros() as usize;
            let (hi, sticky) = Nat::from_u128(prod).hi64();
            let (whi, wst) = if bl <= 64 {
                ((prod as u64) << (64 - bl), false)
            } else {
                ((prod >> (bl - 64)) as u64, prod & ((1u128 << (bl - 64)) - 1) != 0)
            };
            if (hi, sticky) != (whi, wst) {
                return Err(format!("hi64 {}", prod));
            }
            if Nat::from_u128(prod).bit_length() != bl {
                return Err(format!("bitlen {}", prod));
            }
        }
        n += 8;
    }
    // pow_fast == pow_u32, and a known constant: 5^27
    for e in 0..200u32 {
        if Nat::pow_fast(5, e) != Nat::pow_u32(5, e) {
            return Err(format!("pow 5^{}", e));
        }
        n += 1;
    }
    if Nat::pow_fast(5, 27).to_u64() != Some(7450580596923828125) {
        return Err("5^27".into());
    }
    if Nat::pow_fast(10, 30).to_decimal() != b"1000000000000000000000000000000" {
        return Err("10^30".into());
    }
    if Nat::pow_fast(10, 40).add_u64(7).div_pow10(38).to_u64() != Some(100) {
        return Err("div_pow10".into());
    }
    let x = Nat::from_limbs64(&[1, 2, 3, 0, 0]);
    if x.to_limbs64() != vec![1, 2, 3] || x.limbs64() != 3 {
        return Err("limbs64".into());
    }
    Ok(n)
}
