//! Allocator seam (S4): the simulator owns the global allocator.
//!
//! A *window* is open exactly while library code of the request under
//! observation runs: opened right before the library is entered, closed on
//! return, and suspended around every seam yield (task switch). Under shuttle
//! all tasks share one OS thread, so the window state lives in a thread-local
//! and is saved/restored on the yielding task's own stack; with real threads
//! (Miri engine) the same thread-local is per thread.
//!
//! While the window is open every alloc/realloc/dealloc is counted; in *fill*
//! mode fresh blocks are additionally filled with seeded garbage (this is the
//! stale-memory seam S2 for the heap back-end: `Vec::with_capacity` memory is
//! otherwise whatever the system allocator left there).
//! Allocations made while the thread is panicking belong to the panic runtime
//! and are not charged.

use std::alloc::{GlobalAlloc, Layout, System};
use std::cell::Cell;

pub struct SimAlloc;

#[derive(Clone, Copy, Debug, Default, PartialEq, Eq)]
pub struct Counts {
    pub allocs: u64,
    pub reallocs: u64,
    pub frees: u64,
    pub bytes: u64,
}

impl Counts {
    pub fn total(&self) -> u64 {
        self.allocs + self.reallocs + self.frees
    }
}

#[derive(Clone, Copy)]
struct Window {
    armed: bool,
    fill: u64, // 0 = no fill
    counts: Counts,
}

const CLOSED: Window =
    Window { armed: false, fill: 0, counts: Counts { allocs: 0, reallocs: 0, frees: 0, bytes: 0 } };

thread_local! {
    static WINDOW: Cell<Window> = const { Cell::new(CLOSED) };
}

/// Saved window state of a task that is about to yield.
#[derive(Clone, Copy)]
pub struct Saved(Window);

pub fn open_window(fill: Option<u64>) {
    WINDOW.with(|w| w.set(Window { armed: true, fill: fill.map(|f| f | 1).unwrap_or(0), counts: Counts::default() }));
}

pub fn close_window() -> Counts {
    WINDOW.with(|w| {
        let cur = w.get();
        w.set(CLOSED);
        cur.counts
    })
}

#[inline]
pub fn suspend() -> Saved {
    WINDOW.with(|w| {
        let cur = w.get();
        w.set(CLOSED);
        Saved(cur)
    })
}

#[inline]
pub fn resume(s: Saved) {
    WINDOW.with(|w| w.set(s.0));
}

#[inline]
fn charge(kind: u8, size: usize, ptr: *mut u8, fresh_from: usize) {
    // Fast path: window closed.
    let _ = WINDOW.try_with(|w| {
        let mut cur = w.get();
        if !cur.armed {
            return;
        }
        if std::thread::panicking() {
            return;
        }
        match kind {
            0 => cur.counts.allocs += 1,
            1 => cur.counts.reallocs += 1,
            _ => cur.counts.frees += 1,
        }
        cur.counts.bytes += size as u64;
        if cur.fill != 0 && kind != 2 && !ptr.is_null() && size > fresh_from {
            // Seeded garbage in the fresh part of the block.
            let mut s = cur.fill ^ (cur.counts.allocs.wrapping_mul(0x9E37_79B9_7F4A_7C15));
            let mut i = fresh_from;
            while i < size {
                s = s.wrapping_mul(0x5851_F42D_4C95_7F2D).wrapping_add(0x1405_7B7E_F767_814F);
                let b = (s >> 56) as u8 | 1;
                unsafe { ptr.add(i).write(b) };
                i += 1;
            }
        }
        w.set(cur);
    });
}

unsafe impl GlobalAlloc for SimAlloc {
    unsafe fn alloc(&self, layout: Layout) -> *mut u8 {
        let p = System.alloc(layout);
        charge(0, layout.size(), p, 0);
        p
    }
    unsafe fn alloc_zeroed(&self, layout: Layout) -> *mut u8 {
        let p = System.alloc_zeroed(layout);
        // counted, never filled (contract: zeroed)
        charge(0, layout.size(), core::ptr::null_mut(), 0);
        p
    }
    unsafe fn dealloc(&self, ptr: *mut u8, layout: Layout) {
        charge(2, layout.size(), ptr, 0);
        System.dealloc(ptr, layout)
    }
    unsafe fn realloc(&self, ptr: *mut u8, layout: Layout, new_size: usize) -> *mut u8 {
        let p = System.realloc(ptr, layout, new_size);
        charge(1, new_size, p, layout.size());
        p
    }
}
