//! The only source of randomness in the simulator: splitmix64 for seed
//! derivation, xoshiro256** for streams. Everything is a pure function of
//! VERIF_SEED; nothing here reads a clock, an address, or the environment.

#[inline]
pub fn splitmix64(state: &mut u64) -> u64 {
    *state = state.wrapping_add(0x9E37_79B9_7F4A_7C15);
    let mut z = *state;
    z = (z ^ (z >> 30)).wrapping_mul(0xBF58_476D_1CE4_E5B9);
    z = (z ^ (z >> 27)).wrapping_mul(0x94D0_49BB_1331_11EB);
    z ^ (z >> 31)
}

/// Order-sensitive hash combine (used for seed derivation and fingerprints).
#[inline]
pub fn mix(a: u64, b: u64) -> u64 {
    let mut s = a ^ b.wrapping_mul(0xD6E8_FEB8_6659_FD93).rotate_left(29);
    splitmix64(&mut s)
}

/// FNV-style running fingerprint.
#[derive(Clone, Copy, Debug)]
pub struct Fp(pub u64);
impl Fp {
    pub fn new() -> Self {
        Fp(0xcbf2_9ce4_8422_2325)
    }
    #[inline]
    pub fn push(&mut self, x: u64) {
        self.0 = (self.0 ^ x).wrapping_mul(0x1000_0000_01b3).rotate_left(17) ^ (x >> 7);
    }
    pub fn push_bytes(&mut self, b: &[u8]) {
        self.push(b.len() as u64);
        for &c in b {
            self.push(c as u64);
        }
    }
    pub fn finish(self) -> u64 {
        let mut s = self.0;
        splitmix64(&mut s)
    }
}

/// Seed of run `index` of `property` under the global VERIF_SEED.
pub fn run_seed(verif_seed: u64, property: &str, index: u64) -> u64 {
    let mut h = Fp::new();
    h.push(verif_seed);
    h.push_bytes(property.as_bytes());
    h.push(index);
    h.finish()
}

#[derive(Clone, Debug)]
pub struct Rng {
    s: [u64; 4],
}

impl Rng {
    pub fn new(seed: u64) -> Self {
        let mut st = seed;
        let s = [splitmix64(&mut st), splitmix64(&mut st), splitmix64(&mut st), splitmix64(&mut st)];
        Rng { s }
    }

    /// Independent stream derived from this one's seed material and a label
    /// (does not advance `self`).
    pub fn fork(&self, label: u64) -> Rng {
        Rng::new(mix(self.s[0] ^ self.s[2].rotate_left(13), label))
    }

    #[inline]
    pub fn next_u64(&mut self) -> u64 {
        let result = self.s[1].wrapping_mul(5).rotate_left(7).wrapping_mul(9);
        let t = self.s[1] << 17;
        self.s[2] ^= self.s[0];
        self.s[3] ^= self.s[1];
        self.s[1] ^= self.s[2];
        self.s[0] ^= self.s[3];
        self.s[2] ^= t;
        self.s[3] = self.s[3].rotate_left(45);
        result
    }

    /// Uniform in 0..n (n > 0).
    #[inline]
    pub fn below(&mut self, n: u64) -> u64 {
        debug_assert!(n > 0);
        ((self.next_u64() as u128 * n as u128) >> 64) as u64
    }

    #[inline]
    pub fn usize_below(&mut self, n: usize) -> usize {
        self.below(n as u64) as usize
    }

    /// Uniform in lo..=hi.
    #[inline]
    pub fn range(&mut self, lo: i64, hi: i64) -> i64 {
        debug_assert!(lo <= hi);
        lo + self.below((hi - lo) as u64 + 1) as i64
    }

    #[inline]
    pub fn urange(&mut self, lo: usize, hi: usize) -> usize {
        self.range(lo as i64, hi as i64) as usize
    }

    /// True with probability num/den.
    #[inline]
    pub fn chance(&mut self, num: u64, den: u64) -> bool {
        self.below(den) < num
    }

    pub fn pick<'a, T>(&mut self, xs: &'a [T]) -> &'a T {
        &xs[self.usize_below(xs.len())]
    }

    /// Index drawn with the given weights.
    pub fn weighted(&mut self, weights: &[u32]) -> usize {
        let total: u64 = weights.iter().map(|&w| w as u64).sum();
        let mut r = self.below(total);
        for (i, &w) in weights.iter().enumerate() {
            if r < w as u64 {
                return i;
            }
            r -= w as u64;
        }
        weights.len() - 1
    }

    pub fn digit(&mut self) -> u8 {
        b'0' + self.below(10) as u8
    }

    pub fn nonzero_digit(&mut self) -> u8 {
        b'1' + self.below(9) as u8
    }
}
