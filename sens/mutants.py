#!/usr/bin/env python3
"""Sensitivity proof: deliberate property-breaking edits (DESIGN.md sensitivity plans),
each applied to /repo's working tree, checked, and reverted. Every edit compiles and
passes the pinned test suite (verified separately with --tests).

  sens/mutants.py [--tests] [--engines native,miri,asan] [name ...]
"""
import os, subprocess, sys, json, time

REPO = "/repo"
# name: (property, file, old, new, note)
M = {
 # ---- C13 ----
 "c13_try_push_le": ("C13", "src/stackvec.rs", "if self.len() < self.capacity() {\n            // SAFETY: safe, capacity is less than the current size.\n            unsafe { self.push_unchecked(value) };", "if self.len() <= self.capacity() {\n            // SAFETY: safe, capacity is less than the current size.\n            unsafe { self.push_unchecked(value) };", "try_push accepts len == capacity"),
 "c13_resize_no_write": ("C13", "src/stackvec.rs", "                    ptr::write(dst, value);\n", "                    let _ = (dst, value);\n", "resize_unchecked skips its writes"),
 "c13_pop_read_before_dec": ("C13", "src/stackvec.rs", "        self.length -= 1;\n        #[cfg(feature = \"verif\")]", "        let stale = unsafe { ptr::read(self.as_mut_ptr().add(self.len())) };\n        self.length -= 1;\n        if self.length == 60 { return stale; }\n        #[cfg(feature = \"verif\")]", "pop at length 61 returns the slot beyond the end"),
 "c13_deref_len_plus_one": ("C13", "src/stackvec.rs", "            let ptr = self.data.as_ptr() as *const bigint::Limb;\n            slice::from_raw_parts(ptr, self.len())", "            let ptr = self.data.as_ptr() as *const bigint::Limb;\n            slice::from_raw_parts(ptr, if self.len() == 17 { 18 } else { self.len() })", "Deref exposes one extra slot at length 17"),
 "c13_eq_len_only": ("C13", "src/stackvec.rs", "self.len() == other.len() && self.deref() == other.deref()", "self.len() == other.len() && self.deref()[self.len() / 2..] == other.deref()[self.len() / 2..]", "== ignores the low half"),
 "c13_compare_no_rev": ("C13", "src/bigint.rs", "let iter = x.iter().rev().zip(y.iter().rev());", "let iter = x.iter().zip(y.iter());", "compare walks least-significant first"),
 "c13_try_resize_cap_plus_one": ("C13", "src/stackvec.rs", "        if len > self.capacity() {\n            None", "        if len > self.capacity() + 1 {\n            None", "try_resize accepts capacity + 1"),
 "c13_extend_stale_len": ("C13", "src/stackvec.rs", "        if self.len() + slc.len() <= self.capacity() {\n            // SAFETY: safe, since `self.len() + slc.len() <= self.capacity()`.\n            unsafe { self.extend_unchecked(slc) };\n            Some(())\n        } else {\n            None", "        if self.len() + slc.len() <= self.capacity() {\n            // SAFETY: safe, since `self.len() + slc.len() <= self.capacity()`.\n            unsafe { self.extend_unchecked(slc) };\n            Some(())\n        } else {\n            self.length = self.length.saturating_sub(1);\n            None", "failed try_extend drops the last element"),
 # ---- C12 ----
 "c12_large_add_carry": ("C12", "src/bigint.rs", "            tmp |= result.1;", "            tmp = result.1;", "carry of the first addition lost when the +1 does not overflow"),
 "c12_pow_small_step_28": ("C12", "src/bigint.rs", "        13\n    } else {\n        27\n    };\n    let max_native = (5 as Limb).pow(small_step);", "        13\n    } else {\n        28\n    };\n    let max_native = (5 as Limb).wrapping_pow(small_step);", "5^28 overflows the limb"),
 "c12_shl_swap": ("C12", "src/bigint.rs", "    let rem = n % LIMB_BITS;\n    let div = n / LIMB_BITS;\n    if rem != 0 {\n        shl_bits(x, rem)?;", "    let rem = n % LIMB_BITS;\n    let div = n / LIMB_BITS;\n    if rem != 0 && n != 130 {\n        shl_bits(x, rem)?;", "shl by exactly 130 skips the bit part"),
 "c12_shl_bits_no_carry": ("C12", "src/bigint.rs", "    let carry = prev >> rshift;\n    if carry != 0 {\n        x.try_push(carry)?;", "    let carry = prev >> rshift;\n    if carry != 0 && x.len() != 7 {\n        x.try_push(carry)?;", "shl_bits drops the carry limb at length 7"),
 "c12_shl_limbs_no_zero": ("C12", "src/bigint.rs", "            ptr::write_bytes(x.as_mut_ptr(), 0, n);", "            ptr::write_bytes(x.as_mut_ptr(), 0, n - 1);", "shl_limbs leaves one low limb unwritten"),
 "c12_hi64_sticky_rs": ("C12", "src/bigint.rs", "    let n = r1 << ls != 0;", "    let n = r1 << rs.min(63) != 0;", "sticky test shifts the wrong way"),
 "c12_hi64_nonzero3": ("C12", "src/bigint.rs", "(v, n || nonzero($self, 2 ))", "(v, n || nonzero($self, 3.min($self.len())))", "sticky scan skips the third limb"),
 "c12_small_mul_swallow": ("C12", "src/bigint.rs", "        carry = result.1;\n    }\n    // If we carried past all the elements, add to the end of the buffer.\n    if carry != 0 {\n        x.try_push(carry)?;", "        carry = result.1;\n    }\n    // If we carried past all the elements, add to the end of the buffer.\n    if carry != 0 {\n        let _ = x.try_push(carry);", "small_mul reports success when the carry does not fit"),
 "c12_pow_remainder": ("C12", "src/bigint.rs", "int_pow_fast_path(exp as usize, FastPathRadix::Five)", "int_pow_fast_path(if exp == 26 { 25 } else { exp as usize }, FastPathRadix::Five)", "remainder 26 uses 5^25"),
 "c12_shl_limbs_cap": ("C12", "src/bigint.rs", "    if n + x.len() > x.capacity() {\n        None", "    if n + x.len() > x.capacity() + 1 {\n        None", "shl_limbs capacity test loosened by one (also C08)"),
 # ---- C15 ----
 "c15_long_mul_vec": ("C15", "src/bigint.rs", "pub fn long_mul(x: &[Limb], y: &[Limb]) -> Option<VecType> {", "pub fn long_mul(x: &[Limb], y: &[Limb]) -> Option<VecType> {\n    #[cfg(feature = \"std\")]\n    let x_owned: std::vec::Vec<Limb> = x.to_vec();\n    #[cfg(feature = \"std\")]\n    let x: &[Limb] = &x_owned;", "long_mul copies x into a Vec (std builds)"),
 "c15_box_bigint": ("C15", "src/slow.rs", "    let mut result = Bigint::new();\n", "    #[cfg(feature = \"std\")]\n    let mut result = if max_digits < 200 { *std::boxed::Box::new(Bigint::new()) } else { Bigint::new() };\n    #[cfg(not(feature = \"std\"))]\n    let mut result = Bigint::new();\n", "f32 slow path boxes its big integer"),
 # ---- C16 ----
 "c16_size_hint": ("C16", "src/parse.rs", "            num.exponent = exponent.saturating_add(into_i32(1 + integer.count()));", "            num.exponent = exponent.saturating_add(into_i32(1 + integer.size_hint().0));", "remaining integer digits taken from size_hint().0"),
 "c16_contiguous": ("C16", "src/slow.rs", "macro_rules! round_up_nonzero {\n    ($format:ident, $iter:expr, $result:ident, $count:ident) => {{\n        for &digit in $iter {", "macro_rules! round_up_nonzero {\n    ($format:ident, $iter:expr, $result:ident, $count:ident) => {{\n        let mut it = $iter;\n        let n = it.clone().count();\n        let tail: &[u8] = match it.next() { Some(first) => unsafe { core::slice::from_raw_parts(first as *const u8, n) }, None => &[] };\n        for &digit in tail.iter() {", "tail scan assumes the digits are contiguous in memory"),
 "c16_normalize_slot_len": ("C16", "src/bigint.rs", "    while let Some(&value) = x.get(x.len().wrapping_sub(1)) {\n        if value == 0 {", "    while let Some(&value) = x.get(x.len().wrapping_sub(1)) {\n        if value == 0 || (x.len() == 40 && unsafe { *x.as_ptr().add(40) } == 0) {", "normalize peeks at the slot beyond the end at length 40"),
 "c16_consume_original": ("C16", "src/parse.rs", "    if let Some(num) = parse_number_fast(integer.clone(), fraction.clone(), exponent) {", "    if let Some(num) = parse_number_fast(integer.by_ref().take(19).chain(integer.clone().skip(usize::MAX)), fraction.clone(), exponent) {", "n/a"),
}
del M["c16_consume_original"]  # placeholder removed (does not type-check cleanly)

def sh(cmd, **kw):
    return subprocess.run(cmd, shell=True, text=True, stdout=subprocess.PIPE, stderr=subprocess.STDOUT, **kw)

def main():
    args = sys.argv[1:]
    tests = "--tests" in args
    engines = None
    if "--engines" in args:
        engines = args[args.index("--engines") + 1]
    names = [a for a in args if a in M] or list(M)
    results = {}
    for name in names:
        prop, f, old, new, note = M[name]
        path = os.path.join(REPO, f)
        src = open(path).read()
        if old not in src:
            print("%-28s PATCH DOES NOT APPLY" % name); results[name] = "noapply"; continue
        try:
            open(path, "w").write(src.replace(old, new, 1))
            if tests:
                r = sh("cd /repo && cargo test --workspace --no-fail-fast --offline 2>&1 | grep -E '^test result|error(\\[|:)' | grep -v ' 0 failed' | head -5")
                ok = r.stdout.strip() == ""
                print("%-28s suite %s %s" % (name, "passes" if ok else "FAILS/does not build:", r.stdout.strip()[:300]))
                results[name] = ok
                continue
            env = dict(os.environ)
            if engines:
                env["VERIF_ENGINES"] = engines
            t0 = time.time()
            r = subprocess.run(["/verif/check", prop, "quick"], cwd="/verif", env=env, text=True, stdout=subprocess.PIPE, stderr=subprocess.STDOUT)
            v = [l for l in r.stdout.splitlines() if l.startswith("VIOLATION")]
            cls = ""
            if v:
                rp = v[0].split("replay=")[1]
                try:
                    j = json.load(open(rp)); cls = "%s (%s ops, minimised=%s)" % (j["class"], j["minimised_ops"], j["minimised"])
                except Exception as e:
                    cls = "?"
            print("%-28s %s exit=%d %5.1fs %s  [%s]" % (name, prop, r.returncode, time.time() - t0, "DETECTED " + cls if r.returncode == 1 else "MISSED" if r.returncode == 0 else "HARNESS-ERROR " + r.stdout[-300:], note))
            results[name] = r.returncode
        finally:
            open(path, "w").write(src)
    sh("cd /repo && git status --short")
    return 0

if __name__ == "__main__":
    main()
