#!/usr/bin/env python3
"""Seeded-breakage bookkeeping.

  seed.py confirm <source_dir> <id> [--features F] [--runner cargo|miri] [--prop Cxx]
        copy patch.diff/demo.rs/meta.json of a sub-agent's change into /verif/seeded/<id>/ and confirm,
        in a fresh scratch worktree of /repo under /tmp (removed afterwards): the patch applies, all
        feature sets build, the pinned test suite passes, the demo fails with the patch and passes without.
  seed.py detect <id> [--engines native,asan,miri] [--tier quick]
        apply the patch to /repo, run the property's check, undo the patch; record the outcome.
  seed.py table
"""
import json, os, subprocess, sys, shutil, time

SEEDED = "/verif/seeded"

def sh(cmd, cwd=None, env=None, timeout=3600):
    e = dict(os.environ); e["CARGO_NET_OFFLINE"] = "true"
    if env: e.update(env)
    r = subprocess.run(cmd, shell=True, cwd=cwd, env=e, text=True, stdout=subprocess.PIPE, stderr=subprocess.STDOUT, timeout=timeout)
    return r.returncode, r.stdout

def opt(args, name, default=None):
    if name in args:
        return args[args.index(name) + 1]
    return default

def confirm(args):
    src, sid = args[0], args[1]
    feats = opt(args, "--features", "")
    runner = opt(args, "--runner", "cargo")
    d = os.path.join(SEEDED, sid)
    os.makedirs(d, exist_ok=True)
    for f in os.listdir(src):
        if f in ("patch.diff", "meta.json") or f.startswith("demo"):
            s = os.path.join(src, f)
            if os.path.isdir(s):
                shutil.copytree(s, os.path.join(d, f), dirs_exist_ok=True)
            else:
                shutil.copy(s, os.path.join(d, "agent_meta.json" if f == "meta.json" else f))
    agent = json.load(open(os.path.join(d, "agent_meta.json")))
    prop = opt(args, "--prop", agent.get("property"))
    wt = "/tmp/confirm_%s" % sid.replace("/", "_")
    sh("git -C /repo worktree remove --force %s" % wt)
    rc, out = sh("git -C /repo worktree add -q --detach %s HEAD" % wt)
    ran = []
    ok = True
    try:
        rc, out = sh("git apply %s/patch.diff" % d, cwd=wt); ran.append(("git apply patch.diff", rc)); ok &= rc == 0
        for b in ["cargo build --offline", "cargo build --offline --features compact", "cargo build --offline --no-default-features --features compact",
                  "cargo build --offline --features alloc", "cargo build --offline --features compact,alloc"]:
            rc, out = sh(b, cwd=wt); ran.append((b, rc)); ok &= rc == 0
        rc, out = sh("cargo test --workspace --no-fail-fast --offline 2>&1 | grep -E '^test result' | awk '{p+=$4; f+=$6} END {print p\" passed \"f\" failed\"}'", cwd=wt)
        ran.append(("cargo test --workspace --no-fail-fast --offline (patched): " + out.strip(), rc)); suite_ok = out.strip() == "42 passed 0 failed"; ok &= suite_ok
        tname = "demo_" + sid.replace("-", "_").replace("/", "_")
        shutil.copy(os.path.join(d, "demo.rs"), os.path.join(wt, "tests", tname + ".rs"))
        fl = (" --features " + feats) if feats else ""
        fl += " " + opt(args, "--extra", "") if opt(args, "--extra") else ""
        if runner == "miri":
            demo = "cargo +nightly miri test --offline%s --test %s" % (fl, tname); env = {"MIRIFLAGS": "-Zmiri-tree-borrows"}
        else:
            demo = "cargo test --offline%s --test %s" % (fl, tname); env = None
        rc1, out1 = sh(demo, cwd=wt, env=env); ran.append((demo + " (with patch)", rc1))
        sh("git checkout -- src Cargo.toml", cwd=wt)
        rc2, out2 = sh(demo, cwd=wt, env=env); ran.append((demo + " (without patch)", rc2))
        demo_ok = rc1 != 0 and rc2 == 0
        ok &= demo_ok
        tail1 = "\n".join(l for l in out1.splitlines() if "panicked" in l or "Undefined Behavior" in l or "test result" in l or "FAILED" in l)[:800]
    finally:
        sh("git -C /repo worktree remove --force %s" % wt)
        sh("rm -rf %s" % wt)
    meta = dict(property=prop, id=sid, summary=agent.get("summary"), needs=agent.get("needs"), demo_features=feats, demo_runner=runner,
                confirmed=bool(ok), what_i_ran=[dict(cmd=c, exit=r) for c, r in ran], demo_failure_excerpt=tail1, source="independent sub-agent, given only the property text and a scratch worktree")
    old = os.path.join(d, "meta.json")
    if os.path.exists(old):
        try:
            meta["detection"] = json.load(open(old)).get("detection")
        except Exception:
            pass
    json.dump(meta, open(old, "w"), indent=1)
    print("%-40s %s confirmed=%s (suite %s, demo with=%s without=%s)" % (sid, prop, ok, "ok" if suite_ok else "FAIL", rc1, rc2))
    return 0 if ok else 1

def detect(args):
    sid = args[0]
    d = os.path.join(SEEDED, sid)
    meta = json.load(open(os.path.join(d, "meta.json")))
    prop = opt(args, "--prop", meta["property"])
    tier = opt(args, "--tier", "quick")
    engines = opt(args, "--engines")
    rc, out = sh("git -C /repo status --porcelain --untracked-files=no")
    if out.strip():
        print("refusing: /repo has uncommitted changes:\n" + out); return 2
    env = {}
    if engines: env["VERIF_ENGINES"] = engines
    t0 = time.time()
    try:
        rc, out = sh("git -C /repo apply %s/patch.diff" % d)
        if rc != 0:
            print("patch does not apply: " + out); return 2
        rc, out = sh("./check %s %s" % (prop, tier), cwd="/verif", env=env, timeout=7200)
    finally:
        sh("git -C /repo checkout -- .")
    v = [l for l in out.splitlines() if l.startswith("VIOLATION")]
    cls = []
    for l in v[:3]:
        rp = l.split("replay=")[1].strip()
        try:
            j = json.load(open(rp)); cls.append(dict(cls=j["class"], detail=j["detail"][:300], minimised=j["minimised"], ops=j["minimised_ops"], engine=j["engine"]))
            shutil.copy(rp, os.path.join(d, "replay_" + os.path.basename(rp)))
        except Exception as e:
            cls.append(dict(error=str(e)))
    det = dict(check="./check %s %s" % (prop, tier), engines=engines or "all", exit=rc, detected=(rc == 1), wall_s=round(time.time() - t0, 1), violations=cls,
               tail=None if rc == 1 else out[-600:])
    meta.setdefault("detection_log", []).append(det)
    meta["detection"] = det
    json.dump(meta, open(os.path.join(d, "meta.json"), "w"), indent=1)
    print("%-40s %s exit=%d %s %s" % (sid, prop, rc, "DETECTED" if rc == 1 else "MISSED" if rc == 0 else "ERROR", json.dumps(cls[:1])[:300]))
    return 0

def rebase(args):
    """Re-express every stored patch against /repo's current HEAD (after hook commits moved context lines)."""
    wt = "/tmp/rebase_wt"
    sh("git -C /repo worktree remove --force %s" % wt)
    sh("git -C /repo worktree add -q --detach %s HEAD" % wt)
    try:
        for sid in sorted(os.listdir(SEEDED)):
            d = os.path.join(SEEDED, sid)
            pf = os.path.join(d, "patch.diff")
            if not os.path.exists(pf): continue
            rc, out = sh("git apply --check %s" % pf, cwd=wt)
            if rc == 0:
                print("%-40s applies cleanly" % sid); continue
            rc, out = sh("patch -p1 -F3 --no-backup-if-mismatch < %s" % pf, cwd=wt)
            if rc != 0:
                print("%-40s REBASE FAILED: %s" % (sid, out[-300:])); sh("git checkout -- . && git clean -fdq", cwd=wt); continue
            rc, out = sh("git diff", cwd=wt)
            open(pf, "w").write(out)
            sh("git checkout -- . && git clean -fdq", cwd=wt)
            rc, _ = sh("git apply --check %s" % pf, cwd=wt)
            print("%-40s rebased (%s)" % (sid, "ok" if rc == 0 else "STILL FAILS"))
    finally:
        sh("git -C /repo worktree remove --force %s" % wt); sh("rm -rf %s" % wt)
    return 0

def table(args):
    for sid in sorted(os.listdir(SEEDED)):
        p = os.path.join(SEEDED, sid, "meta.json")
        if not os.path.exists(p): continue
        m = json.load(open(p))
        det = m.get("detection") or {}
        c = (det.get("violations") or [{}])[0]
        print("| %s | %s | %s | %s | %s |" % (sid, m["property"], "yes" if m.get("confirmed") else "NO", "detected" if det.get("detected") else ("missed" if det else "-"), c.get("cls", "")))

if __name__ == "__main__":
    a = sys.argv[1:]
    sys.exit({"confirm": confirm, "detect": detect, "table": table, "rebase": rebase}[a[0]](a[1:]))
