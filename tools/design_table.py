#!/usr/bin/env python3
"""Regenerate the table of DESIGN.md §11.2 ("Detected by ...") from seeded/*/meta.json."""
import json, os, re
SEEDED = "/verif/seeded"
rows = []
for sid in sorted(os.listdir(SEEDED)):
    p = os.path.join(SEEDED, sid, "meta.json")
    if not os.path.exists(p):
        continue
    m = json.load(open(p))
    det = m.get("detection") or {}
    v = (det.get("violations") or [{}])[0]
    summ = re.sub(r"\s+", " ", (m.get("summary") or "")).replace("|", "/")
    if len(summ) > 150:
        summ = summ[:150] + "…"
    if det.get("detected"):
        how = "%s (%s)" % (v.get("cls", "?"), v.get("engine", "?"))
        if "thorough" in det.get("check", ""):
            how += ", thorough tier"
    else:
        how = "**missed** by `%s`" % det.get("check", "-") if det else "-"
    if m.get("note"):
        how += "; " + m["note"]
    rows.append("| `%s` | %s | %s | %s |" % (sid, m["property"], summ, how))
d = open("/verif/DESIGN.md").read()
head = "| id | property | change (sub-agent's summary) | detected as |\n|----|----------|------------------------------|-------------|\n"
a = d.index(head) + len(head)
b = a
while d[b:b + 1] == "|":
    b = d.index("\n", b) + 1
d = d[:a] + "\n".join(rows) + "\n" + d[b:]
open("/verif/DESIGN.md", "w").write(d)
print(len(rows), "rows")
